"""Lemma registry: which harness, entry, contracts and flags decide which property."""
import os, sys
sys.path.insert(0, os.path.join(os.path.dirname(os.path.abspath(__file__)), "..", "lib"))
from vf import Lemma

COMMON_TRUSTED = ["cbmc 6.11.0, goto-cc, goto-instrument (DFCC), cadical",
                  "unity translation unit = the ten /repo/src/*.c files #included unmodified (one TU instead of ten; _GNU_SOURCE visible to all)",
                  "gcc and goto-cc agree on enum underlying types, bit-field layout and char signedness (x86-64 SysV)"]
COMMON_ASSUMPTIONS = ["machine arithmetic is modelled bit-precisely (nothing idealised)",
                      "CBMC built-in models of strcmp/strlen/strncpy/strchr/tolower/strcasecmp/printf/fprintf"]

PROPS = {}
NOT_APPLICABLE = {}
HOOK_COMMITS = []


def lemmas():
    out = []
    for mod in ("reg_c12", "reg_steps", "reg_api", "reg_e", "reg_text", "reg_os"):
        m = __import__(mod)
        out += m.lemmas()
    import props
    PROPS.update(props.PROPS)
    NOT_APPLICABLE.update(props.NOT_APPLICABLE)
    return out
