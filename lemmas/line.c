/* C06/C09/C10: the two per-line functions against their contracts (contracts/line_contracts.h).
 *  h_str_to_instr : real str_to_instr, line of ANY length (loop contract on the skip loop, filter and
 *                   line_to_instr by contract): position advances exactly behind the first line end,
 *                   only the record and *read_len are written (no state survives a line)
 *  h_line_to_instr: real line_to_instr + encoder on any filtered text (tokenizer and look-ups by
 *                   contract): success leaves a record with a valid table row */
#include "vf.h"
#include <stdio.h>
#define fprintf(...) ((void)0)
#include "al_unity.h"
#define LIBC_SAFETY_ABSTRACTION 1
#include "libc.h"
#include "text_contracts.h"
#include "tok_contracts.h"
#include "line_contracts.h"
void h_str_to_instr(void) {
  struct instr *I; const char *s; int *rl;
  { const char *nd; int n, b, q; char qc; unsigned char bc; g_in = nd; g_len = n; g_bad = b; g_q = q; g_qc = qc; g_badc = bc; }
  int rc = str_to_instr(I, s, rl);
  if (rc == EXIT_SUCCESS) REACH("line accepted or skipped"); else REACH("line rejected");
}
void h_line_to_instr(void) {
  struct instr *I; char *f;
  STATIC_ZERO_INIT_INDEX_TABLES(); asm_build_index_tables();
  int rc = line_to_instr(I, f);
  if (rc == EXIT_SUCCESS) REACH("accepted"); else REACH("rejected");
}
