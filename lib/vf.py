"""Core machinery: build the unity TU from /repo's working tree with goto-cc, instrument
contracts with goto-instrument --dfcc, discharge with cbmc, parse per-obligation results,
extract counterexamples, write evidence.  Everything is rebuilt on every run."""
import json, os, re, shutil, subprocess, sys, time, hashlib, resource
from dataclasses import dataclass, field
from concurrent.futures import ThreadPoolExecutor

VERIF = os.path.dirname(os.path.dirname(os.path.abspath(__file__)))
REPO = os.environ.get("VERIF_REPO", "/repo")
# VERIF_OUT redirects everything a run writes (build output, evidence, replay files) - used to run the
# checks against a scratch copy of the repository (VERIF_REPO) without disturbing /verif's own files
OUT = os.environ.get("VERIF_OUT", VERIF)
BUILD = os.path.join(OUT, "build")
GUARD = "ASSEMBLYLINE_VERIF"

CC_FLAGS = ["-std=gnu99", "-D_GNU_SOURCE", "-D" + GUARD, "-DCBMC_RUN=1",
            "-I" + os.path.join(REPO, "src"), "-I" + REPO,
            "-I" + os.path.join(VERIF, "harness"), "-I" + os.path.join(VERIF, "contracts"),
            "-I" + os.path.join(VERIF, "spec"), "-I" + os.path.join(VERIF, "models"),
            "-I" + os.path.join(VERIF, "lemmas")]

# loops with table-constant bounds; every other loop must be closed by a lemma's own
# unwindset or a loop contract (unwinding assertions are always on)
BASE_UNWINDSET = ("assemble_instr.0:16,assemble_const.0:9,assemble_imm.0:9,"
                  "assemble_mem_const.0:5,asm_build_index_tables.0:330,"
                  "asm_build_index_tables.1:40,str_to_instr_key.0:330,"
                  "str_to_instr_key.1:330,get_opd_format.0:40,check_registers.0:4,"
                  "all_opd_str_to_reg.0:4,all_opd_str_to_reg.1:4,nop_padding.0:12,nop_padding.1:12")

SAFETY = ["--bounds-check", "--pointer-check", "--div-by-zero-check",
          "--signed-overflow-check", "--undefined-shift-check",
          "--pointer-overflow-check"]


@dataclass
class Lemma:
    name: str                      # unique id, e.g. "C12.set_all"
    src: str                       # harness file relative to /verif/lemmas
    entry: str                     # harness entry function
    props: list                    # property ids this lemma serves
    tier: str = "quick"            # quick lemmas also run in thorough
    defs: dict = field(default_factory=dict)
    enforce: list = field(default_factory=list)     # "f/f__c"
    enforce_rec: list = field(default_factory=list)
    replace: list = field(default_factory=list)     # "g/g__c"
    loops_file: str = None          # loop contracts json (relative to /verif/contracts)
    apply_loops: bool = False
    unwind: int = 102
    unwindset: str = ""
    safety: bool = True             # turn on CBMC's safety checks
    extra: list = field(default_factory=list)       # extra cbmc flags
    object_bits: int = 10            # 2^10 addressable objects (cbmc default 2^8 is exceeded by the larger shapes)
    timeout: int = 600
    mem_gb: int = 14
    bounded: str = None             # text of the bound if this lemma is a bounded stand-in
    desc: str = ""
    ghosts: list = field(default_factory=list)      # ghost names to pull out of a trace
    replay: object = None           # callable(lemma, failure) -> dict, native replay
    kf: list = field(default_factory=list)          # known-finding ids whose carve-out lives here
    unity: str = "lib"              # "lib" = library unity TU, "asmline" = tools/asmline.c too
    functions: list = field(default_factory=list)   # real functions whose bodies are verified here
    expect_fail_prefix: str = "VACUITY"             # obligations that MUST fail (reachability)
    solver: list = field(default_factory=lambda: ["--sat-solver", "cadical"])
    slice: bool = False             # --slice-formula: sound for proofs but can raise spurious failures (dropped assumptions); a failure under slicing is re-checked without it
    gen_h: str = None               # generated per-lemma header, written to the lemma dir and -include'd
    ignore: list = field(default_factory=list)     # regexes of obligation names that are artefacts of evaluating a spec predicate (listed in the evidence)


@dataclass
class Result:
    lemma: Lemma
    status: str                    # proved | failed | error
    obligations: int = 0
    discharged: int = 0
    failed: list = field(default_factory=list)      # [{name, description, ghosts, trace_txt}]
    seconds: float = 0.0
    solver_s: float = 0.0
    detail: str = ""
    log: str = ""
    sentinels: int = 0
    cmd: str = ""
    ignored: list = field(default_factory=list)
    unknown: list = field(default_factory=list)


def sh(cmd, timeout, mem_gb, cwd=None, env=None, max_out=None):
    def lim():
        b = mem_gb * (1 << 30)
        resource.setrlimit(resource.RLIMIT_AS, (b, b))
        os.setsid()
    t0 = time.time()
    if max_out:
        # output cap: cbmc writes to a file under RLIMIT_FSIZE (it is killed by SIGXFSZ beyond the cap),
        # so a counterexample trace of tens of GB can exhaust neither this process nor the machine
        import tempfile
        with tempfile.TemporaryFile(dir=BUILD) as fo:
            def lim2():
                lim()
                resource.setrlimit(resource.RLIMIT_FSIZE, (max_out, max_out))
            p = subprocess.Popen(cmd, stdout=fo, stderr=subprocess.PIPE, preexec_fn=lim2, cwd=cwd, env=env)
            try:
                _, e = p.communicate(timeout=timeout)
                rc = p.returncode
            except subprocess.TimeoutExpired:
                try:
                    os.killpg(p.pid, 9)
                except OSError:
                    pass
                _, e = p.communicate()
                rc, e = -999, b"TIMEOUT"
            fo.seek(0)
            o = fo.read()
        return rc, o.decode("utf-8", "replace"), e.decode("utf-8", "replace"), time.time() - t0
    p = subprocess.Popen(cmd, stdout=subprocess.PIPE, stderr=subprocess.PIPE, preexec_fn=lim, cwd=cwd, env=env)
    try:
        o, e = p.communicate(timeout=timeout)
        return p.returncode, o.decode("utf-8", "replace"), e.decode("utf-8", "replace"), time.time() - t0
    except subprocess.TimeoutExpired:
        try:
            os.killpg(p.pid, 9)          # the child is its own session/group leader (setsid above)
        except OSError:
            pass
        o, e = p.communicate()
        return -999, (o or b"").decode("utf-8", "replace"), "TIMEOUT", time.time() - t0


def lemma_dir(l):
    d = os.path.join(BUILD, "lemmas", re.sub(r"[^A-Za-z0-9_.-]", "_", l.name))
    os.makedirs(d, exist_ok=True)
    return d


def kf_defs(known):
    """-DKF_<id>=1 for every open known finding: harnesses carve the class out with
    KF_EXCLUDE(id, predicate)."""
    return ["-DKF_%s=1" % k["id"] for k in known if k["state"] == "open"]


def run_lemma(l, known):
    try:
        res = _run_lemma(l, known)
    except OSError as e:              # disk full and the like: undecided, never a violation
        res = Result(l, "error", detail="I/O error while running the lemma: %s" % e)
    _cleanup(lemma_dir(l), res)
    return res


def _run_lemma(l, known):
    d = lemma_dir(l)
    a, b = os.path.join(d, "a.gb"), os.path.join(d, "b.gb")
    for f in (a, b):
        if os.path.exists(f):
            os.remove(f)
    src = os.path.join(VERIF, "lemmas", l.src)
    defs = ["-D%s=%s" % (k, v) if v is not None else "-D%s" % k for k, v in l.defs.items()]
    inc = []
    if l.gen_h is not None:
        with open(os.path.join(d, "gen.h"), "w") as f:
            f.write(l.gen_h)
        inc = ["-include", os.path.join(d, "gen.h")]
    cc = ["goto-cc"] + CC_FLAGS + defs + kf_defs(known) + inc + ["--function", l.entry, src, "-o", a]
    t0 = time.time()
    rc, out, err, _ = sh(cc, 120, 8)
    log = "$ " + " ".join(cc) + "\n" + out + err
    if rc != 0:
        return Result(l, "error", detail="goto-cc failed (compile/extraction): " + err[-800:], log=log, seconds=time.time() - t0)
    binary = a
    need_dfcc = l.enforce or l.replace or l.enforce_rec or l.apply_loops
    if need_dfcc:
        gi = ["goto-instrument", "--dfcc", l.entry]
        for e in l.enforce:
            gi += ["--enforce-contract", e]
        for e in l.enforce_rec:
            gi += ["--enforce-contract-rec", e]
        for e in l.replace:
            gi += ["--replace-call-with-contract", e]
        if l.apply_loops:
            gi += ["--apply-loop-contracts"]
        if l.loops_file:
            gi += ["--loop-contracts-file", os.path.join(VERIF, "contracts", l.loops_file)]
        gi += [a, b]
        rc, out, err, _ = sh(gi, 300, 12)
        log += "$ " + " ".join(gi) + "\n" + out[-4000:] + err[-4000:]
        if rc != 0:
            return Result(l, "error", detail="goto-instrument failed: " + (err + out)[-1500:], log=log, seconds=time.time() - t0)
        binary = b
    own = [e for e in l.unwindset.split(",") if e]
    own_ids = {e.rsplit(":", 1)[0] for e in own}
    us = ",".join([e for e in BASE_UNWINDSET.split(",") if e.rsplit(":", 1)[0] not in own_ids] + own)
    # DFCC renames an enforced function f to f_wrapped_for_contract_checking: name its loops too
    extra_us = []
    for e in l.enforce + l.enforce_rec:
        fn = e.split("/")[0]
        for ent in us.split(","):
            if ent.startswith(fn + "."):
                extra_us.append(ent.replace(fn + ".", fn + "_wrapped_for_contract_checking.", 1))
    if extra_us:
        us += "," + ",".join(extra_us)
    cb = ["cbmc", binary, "--verbosity", "8", "--unwinding-assertions", "--drop-unused-functions",   # verbosity 8: run-time statistics (solver seconds for the evidence)
          "--unwind", str(l.unwind), "--unwindset", us] + l.solver
    if l.safety:
        cb += SAFETY
    if l.slice:
        cb += ["--slice-formula"]
    if l.object_bits:
        cb += ["--object-bits", str(l.object_bits)]
    cb += l.extra
    # stage 1: plain-text run.  (--json-ui attaches a counterexample trace to every failed
    # obligation, the deliberately failing reachability sentinels included; on the loop-level
    # lemmas with 10^6-byte objects those traces cost > 30 GB.)
    rc, out, err, secs = sh(cb, l.timeout, l.mem_gb)
    results, verdict = parse_plain(out)
    if rc != -999 and l.slice and _real_failures(results, l):
        # a failure under --slice-formula may be an artefact: decide it again on the full formula
        cb = [c for c in cb if c != "--slice-formula"]
        rc, out, err, secs2 = sh(cb, l.timeout, l.mem_gb)
        secs += secs2
        results, verdict = parse_plain(out)
        log += "(re-run without --slice-formula to confirm a failure)\n"
    log += "$ " + " ".join(cb) + "\n"
    traces = {}
    if rc != -999 and verdict and _real_failures(results, l):
        # stage 2: an obligation really failed - get counterexample values for the replay
        # only the obligations that failed (not the reachability sentinels), output capped at 128 MB (json.loads needs 20-30x the text size)
        cbt = cb + ["--json-ui", "--trace"]
        for r in _real_failures(results, l)[:4]:
            cbt += ["--property", r["property"]]
        rc2, out2, err2, secs2 = sh(cbt, l.timeout, l.mem_gb, max_out=128 << 20)
        try:
            for item in json.loads(out2):
                for r in item.get("result", []) if isinstance(item, dict) else []:
                    if r.get("status") == "FAILURE" and "trace" in r:
                        traces[r.get("property")] = (r.get("trace"), r.get("sourceLocation", {}))
            log += "$ " + " ".join(cbt) + "\n"
        except Exception:
            log += "(the re-run with --trace did not finish: failure reported without counterexample values)\n"
    with open(os.path.join(d, "cbmc.txt"), "w") as f:
        f.write(out[-(8 << 20):])
    with open(os.path.join(d, "log.txt"), "w") as f:
        f.write(log + err)
    return _judge(l, cb, rc, out, results, verdict, traces, secs, log, t0, need_dfcc)


def parse_plain(out):
    """[(property, description, status)] and the final verdict line of a plain-text cbmc run"""
    res = []
    for m in re.finditer(r"^\[([^\]\s]+)\] (?:line \d+ )?(.*): (SUCCESS|FAILURE|UNKNOWN|ERROR)$", out, re.M):
        res.append({"property": m.group(1), "description": m.group(2), "status": m.group(3)})
    v = re.search(r"^VERIFICATION (SUCCESSFUL|FAILED)$", out, re.M)
    return res, (v.group(1) if v else None)


def _real_failures(results, l):
    return [r for r in results if r["status"] == "FAILURE" and not (l.expect_fail_prefix and r["description"].startswith(l.expect_fail_prefix))
            and not any(re.search(rx, r["property"]) for rx in l.ignore)]


def _cleanup(d, res):
    """goto binaries are 10-100 MB per lemma (a thorough sweep has thousands of lemmas): drop them as
    soon as the lemma is decided; keep cbmc's JSON (capped) only for lemmas that were not proved."""
    if os.environ.get("VERIF_KEEP_BUILD"):
        return
    for f in ("a.gb", "b.gb"):
        try:
            os.remove(os.path.join(d, f))
        except OSError:
            pass
    try:
        if res.status == "proved":
            os.remove(os.path.join(d, "cbmc.txt"))
    except OSError:
        pass


def _judge(l, cb, rc, out, results, verdict, traces, secs, log, t0, need_dfcc):
    res = Result(l, "error", log=log, seconds=time.time() - t0, cmd=" ".join(cb))
    if rc == -999:
        res.detail = "cbmc timeout after %ds" % l.timeout
        return res
    for m in re.finditer(r"Runtime decision procedure: ([0-9.]+)s", out):
        res.solver_s += float(m.group(1))
    alltxt = out
    if verdict is None or "Out of memory" in out[-3000:]:
        res.detail = "cbmc stopped before the verdict (rc=%d: out of memory, crash or usage error): %s" % (rc, out[-600:])
        return res
    if not results:
        res.detail = "cbmc produced no result block: " + alltxt[-1500:]
        return res
    if re.search(r"no body for (?:function|callee) (\S+)", alltxt):
        nb = sorted(set(re.findall(r"no body for (?:function|callee) (\S+)", alltxt)))
        nb = [x for x in nb if x not in ALLOWED_NO_BODY]
        if nb:
            res.detail = "callee without body or contract (would be havoc): " + ",".join(nb)
            return res
    if "ignoring forall" in alltxt or "ignoring exists" in alltxt:
        res.detail = "solver ignored a quantifier; result not trustworthy"
        return res
    res.obligations = 0
    sentinels_ok, sentinels_bad = 0, []
    for r in results:
        name = r.get("property", "?")
        descr = r.get("description", "")
        status = r.get("status")
        if l.expect_fail_prefix and descr.startswith(l.expect_fail_prefix):
            fn = name.split(".")[0]
            if fn.startswith("h_") and fn != l.entry:
                continue            # sentinel of another entry point in the same harness file
            if status == "FAILURE":
                sentinels_ok += 1
            else:
                sentinels_bad.append(descr)
            continue
        if any(re.search(rx, name) for rx in l.ignore):
            res.ignored.append(name + ": " + descr + " [" + str(status) + "]")
            continue
        res.obligations += 1
        if status == "SUCCESS":
            res.discharged += 1
        elif status != "FAILURE":
            res.unknown.append(name + ": " + descr)     # cbmc leaves obligations UNKNOWN once another one has failed
        else:
            tr, loc = traces.get(name, ([], {}))
            res.failed.append({"name": name, "description": descr, "status": status, "location": loc,
                               "ghosts": trace_ghosts(tr, l.ghosts), "trace_tail": trace_tail(tr)})
    res.sentinels = sentinels_ok
    if sentinels_bad and not res.failed:
        res.status = "error"
        res.detail = "vacuity: reachability sentinel not reachable: " + "; ".join(sentinels_bad)
        return res
    if res.obligations == 0:
        res.detail = "zero obligations generated"
        return res
    if need_dfcc and l.apply_loops and not any("loop invariant" in (r.get("description", "")) or "loop_invariant" in r.get("property", "") for r in results):
        res.detail = "loop contract silently dropped (no loop invariant obligations)"
        return res
    if res.failed:
        res.status = "failed"
    elif res.unknown:
        res.status = "error"
        res.detail = "%d obligations left UNKNOWN by cbmc without any failure: %s" % (len(res.unknown), "; ".join(res.unknown[:3]))
    else:
        res.status = "proved"
    return res


ALLOWED_NO_BODY = set()


def trace_ghosts(trace, names):
    vals = {}
    want = set(names)
    for st in trace:
        if st.get("stepType") != "assignment":
            continue
        lhs = re.sub(r"\[(\d+)l\]", r"[\1]", st.get("lhs", ""))
        base = re.split(r"[.\[]", lhs)[0]
        if base in want or lhs in want:
            v = st.get("value", {})
            if "data" in v:
                vals[lhs] = v["data"]
            elif "members" in v or "elements" in v:
                flat = {}
                flatten(lhs, v, flat)
                vals.update(flat)
    return vals


def flatten(prefix, v, out):
    if "members" in v:
        for m in v["members"]:
            flatten(prefix + "." + m["name"], m["value"], out)
    elif "elements" in v:
        for e in v["elements"]:
            flatten("%s[%s]" % (prefix, e["index"]), e["value"], out)
    elif "data" in v:
        out[prefix] = v["data"]


def trace_tail(trace, n=25):
    out = []
    for st in trace[-200:]:
        t = st.get("stepType")
        if t == "assignment" and not st.get("hidden"):
            v = st.get("value", {})
            loc = st.get("sourceLocation", {})
            out.append("%s:%s %s=%s" % (os.path.basename(loc.get("file", "?")), loc.get("line", "?"),
                                        st.get("lhs"), v.get("data", "{...}")))
        elif t == "failure":
            out.append("FAILURE %s: %s" % (st.get("property"), st.get("reason")))
    return out[-n:]


def run_all(lemmas, known, jobs=None):
    jobs = jobs or int(os.environ.get("VERIF_JOBS", "16"))
    os.makedirs(BUILD, exist_ok=True)
    with ThreadPoolExecutor(max_workers=jobs) as ex:
        return list(ex.map(lambda l: run_lemma(l, known), lemmas))


# ---------------------------------------------------------------- known findings
def load_known():
    path = os.path.join(VERIF, "known_findings.txt")
    out = []
    if not os.path.exists(path):
        return out
    for line in open(path):
        line = line.strip()
        if not line or line.startswith("#"):
            continue
        m = re.match(r"(open|fixed):\s+property=(C\d+)\s+(.*)$", line)
        if not m:
            raise SystemExit("known_findings.txt: unparsable line: " + line)
        state, prop, rest = m.groups()
        ent = {"state": state, "property": prop, "text": rest, "id": None, "witness": None}
        mi = re.search(r"\bid=(\w+)", rest)
        if mi:
            ent["id"] = mi.group(1)
        mw = re.search(r"witness=\{(.*?)\}", rest)
        if mw:
            ent["witness"] = mw.group(1)
        mt = re.search(r"\}\s*(.*)$", rest)
        ent["what"] = mt.group(1) if mt else rest
        out.append(ent)
    return out
