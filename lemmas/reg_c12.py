from vf import Lemma
import native, re

STRICT, NASM, SMART = 0, 1, 2
def spec(setter, o, v):
    mov = lambda o, v: ((o | 1) & ~2) if v == NASM else (o & ~3) if v == STRICT else ((o | 2) & ~1) if v == SMART else o
    swap = lambda o, v: (o | 4) if v == NASM else (o & ~4) if v == STRICT else o
    nob = lambda o, v: (o | 8) if v == NASM else (o & ~8) if v == STRICT else o
    sib = lambda o, v: nob(swap(o, v), v) if v in (NASM, STRICT) else o
    allo = lambda o, v: mov(sib(o, v), v) if v in (NASM, STRICT) else mov(o, SMART) if v == SMART else o
    return {"mov": mov, "swap": swap, "nobase": nob, "sib": sib, "all": allo}[setter](o, v) & 0xff


def setter_replay(setter):
    """native confirmation: from each of the 12 reachable option states, call the real setter with each of a set of
    option values (documented and undocumented) and compare the stored byte with the documented overwrite"""
    def fn(l, failure):
        for m in (STRICT, NASM, SMART):
            for sw in (STRICT, NASM):
                for nb in (STRICT, NASM):
                    for v in (0, 1, 2, 3, -1, 7, 255, 256):
                        script = "create 64\nopt mov %d\nopt swap %d\nopt nobase %d\nstate\nopt %s %d\nstate\n" % (m, sw, nb, setter, v)
                        rc, out = native.run_drv(script)
                        st = re.findall(r"opt=(\d+)", out or "")
                        if rc is None or len(st) != 2:
                            return {"reproduced": False, "error": (out or "")[-200:]}
                        before, after = int(st[0]), int(st[1])
                        if after != spec(setter, before, v):
                            return {"reproduced": True, "cmd": "printf '%s' | %s" % (script.replace("\n", "\\n"), native.drv()[1]),
                                    "output": "option byte %d, %s(%d) -> %d, documented: %d" % (before, setter, v, after, spec(setter, before, v)), "fail_regex": ".",
                                    "text": {"history": script.replace("\n", " | ")}}
        return {"reproduced": False, "note": "native probe of 96 (state, value) pairs found no deviation"}
    return fn



def lemmas():
    R = lambda f: "%s/%s__c" % (f, f)
    leaf = ["asm_mov_imm", "asm_sib_index_base_swap", "asm_sib_no_base"]
    out = []
    for f in leaf:
        out.append(Lemma(name="C12." + f, src="c12.c", entry="h_" + f, props=["C12", "C15", "C18"], enforce=[R(f)],
                         functions=[f], timeout=120, replay=setter_replay({"asm_mov_imm": "mov", "asm_sib_index_base_swap": "swap", "asm_sib_no_base": "nobase"}[f]),
                         desc="%s: new option byte == documented overwrite of its dimension, every other value a no-op, assigns only al->assembly_opt" % f))
    out.append(Lemma(name="C12.asm_sib", src="c12.c", entry="h_asm_sib", props=["C12", "C15", "C18"], enforce=[R("asm_sib")],
                     replace=[R("asm_sib_index_base_swap"), R("asm_sib_no_base")], functions=["asm_sib"], timeout=120, replay=setter_replay("sib"),
                     desc="asm_sib == swap then no-base for NASM/STRICT, no-op otherwise (callees by contract)"))
    out.append(Lemma(name="C12.asm_set_all", src="c12.c", entry="h_asm_set_all", props=["C12", "C15", "C18"], enforce=[R("asm_set_all")],
                     replace=[R(f) for f in leaf], functions=["asm_set_all"], timeout=120, replay=setter_replay("all"),
                     desc="asm_set_all == man-page expansion (swap, no-base, mov-imm for NASM/STRICT; mov-imm only for SMART)"))
    return out
