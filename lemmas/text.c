/* C09/C16: text-level lemmas on symbolic input. */
#include "vf.h"
#include "al_unity.h"
#include "libc.h"
#include "text_contracts.h"
void h_filter(void) {
  const char *s; char *f;
  { const char *nd; int n; int b; g_in = nd; g_len = n; g_bad = b; }
  int r = filter_assembly_str_fsa(s, f);
  REACH("filter returns");
}
