/* C09/C16: text-level lemmas on symbolic input. */
#include "vf.h"
#include <stdio.h>
#define fprintf(...) ((void)0)   /* diagnostics to stderr: no effect on program state */
#include "al_unity.h"
#include "libc.h"
#include "text_contracts.h"
void h_filter(void) {
  const char *s; char *f;
  { const char *nd; int n, b, q; char qc; unsigned char bc; g_in = nd; g_len = n; g_bad = b; g_q = q; g_qc = qc; g_badc = bc; }
  int r = filter_assembly_str_fsa(s, f);
  REACH("filter returns");
}
