"""S4 + E-lemma generator.  For every mnemonic of the supported set (enums.h asm_instr) the
operand forms x86-64 defines for it (from the Intel SDM, NOT from /repo's table), the expected S1
operation and the per-form expectations.  Each (mnemonic, form, memory shape, numeral class)
becomes one CBMC run of lemmas/elemma.c with a generated header."""
from vf import Lemma

K = dict(NONE=0, R8=1, R8H=2, R16=3, R32=4, R64=5, MM=6, XMM=7, YMM=8, MEM=9, IMM=10, REL=11, ONE=12)
KN = {v: k for k, v in K.items()}
CC = {'o': 0, 'no': 1, 'b': 2, 'c': 2, 'nae': 2, 'ae': 3, 'nb': 3, 'nc': 3, 'e': 4, 'z': 4, 'ne': 5, 'nz': 5, 'be': 6, 'na': 6,
      'a': 7, 'nbe': 7, 's': 8, 'ns': 9, 'p': 10, 'pe': 10, 'np': 11, 'po': 11, 'l': 12, 'nge': 12, 'ge': 13, 'nl': 13,
      'le': 14, 'ng': 14, 'g': 15, 'nle': 15}
GPR_NAMES = {
    'R8': ["al", "cl", "dl", "bl", "spl", "bpl", "sil", "dil"] + ["r%db" % i for i in range(8, 16)],
    'R8H': [None] * 4 + ["ah", "ch", "dh", "bh"],
    'R16': ["ax", "cx", "dx", "bx", "sp", "bp", "si", "di"] + ["r%dw" % i for i in range(8, 16)],
    'R32': ["eax", "ecx", "edx", "ebx", "esp", "ebp", "esi", "edi"] + ["r%dd" % i for i in range(8, 16)],
    'R64': ["rax", "rcx", "rdx", "rbx", "rsp", "rbp", "rsi", "rdi"] + ["r%d" % i for i in range(8, 16)],
    'MM': ["mm%d" % i for i in range(8)], 'XMM': ["xmm%d" % i for i in range(16)], 'YMM': ["ymm%d" % i for i in range(16)]}


def reg_name(kind, num):
    return GPR_NAMES[KN[kind]][num]


SLOT = "abcd"
# ---------------------------------------------------------------- operand descriptors
class R:      # register operand; mask = set of kind names; ph = placeholder class letter
    def __init__(self, kinds, fixed=None):
        self.kinds = kinds if isinstance(kinds, (list, tuple)) else [kinds]
        self.fixed = fixed          # e.g. ('R8', 1) for cl
        k0 = self.kinds[0]
        self.ph = 'm' if k0 == 'MM' else 'x' if k0 == 'XMM' else 'y' if k0 == 'YMM' else 'r'


class Mem:    # memory operand
    def __init__(self, form, kw=None):
        self.form, self.kw = form, kw


class Imm:
    def __init__(self, cls="hex", neg=False):
        self.cls, self.neg = cls, neg


GV = ['R16', 'R32', 'R64']
G8 = ['R8', 'R8H']
GALL = G8 + GV

# memory forms: text with {b} base {i} index placeholders, (has_base, has_index, scale, disp 0/+1/-1, radix)
MEMFORMS = {
    "b":        ("[rp]", 1, 0, 1, 0),
    "b+d":      ("[rp+0x1d]", 1, 0, 1, 1),
    "b-d":      ("[rp-0x1d]", 1, 0, 1, -1),
    "b+dec":    ("[rp+19]", 1, 0, 1, 1),
    "b-dec":    ("[rp-19]", 1, 0, 1, -1),
    "b+i":      ("[rp+rq]", 1, 1, 1, 0),
    "b+i+d":    ("[rp+rq+0x1d]", 1, 1, 1, 1),
    "b+i*1":    ("[rp+rq*1]", 1, 1, 1, 0),
    "b+i*2+d":  ("[rp+rq*2+0x1d]", 1, 1, 2, 1),
    "b+i*4":    ("[rp+rq*4]", 1, 1, 4, 0),
    "b+i*4+d":  ("[rp+rq*4+0x1d]", 1, 1, 4, 1),
    "b+i*4-d":  ("[rp+rq*4-0x1d]", 1, 1, 4, -1),
    "b+i*8-dec": ("[rp+rq*8-19]", 1, 1, 8, -1),
    "b+8*i+d":  ("[rp+8*rq+0x1d]", 1, 1, 8, 1),
    "b+2*i":    ("[rp+2*rq]", 1, 1, 2, 0),
    "1*i":      ("[1*rq]", 0, 1, 1, 0),
    "2*i":      ("[2*rq]", 0, 1, 2, 0),
    "2*i+d":    ("[2*rq+0x1d]", 0, 1, 2, 1),
    "4*i+d":    ("[4*rq+0x1d]", 0, 1, 4, 1),
    "8*i-d":    ("[8*rq-0x1d]", 0, 1, 8, -1),
    "4*i":      ("[4*rq]", 0, 1, 4, 0),
    "d":        ("[0x1d]", 0, 0, 1, 1),
    "-d":       ("[-0x1d]", 0, 0, 1, -1),
    "dec":      ("[19]", 0, 0, 1, 1),
}
MEM_QUICK = ["b", "b+d", "b+i*4+d", "4*i+d", "d", "b+i"]
MEM_ALL = list(MEMFORMS)
IMM_TEXT = {("hex", False): "0x2e", ("hex", True): "-0x2e", ("dec", False): "46", ("dec", True): "-46",
            ("hex16", False): "0x000000000000002e"}


class Shape:
    """One E-lemma: mnemonic + operands + expectation generator."""
    def __init__(self, mnem, op, opds, family, props, tier="thorough", extra_constrain="", expect=None, opsize=None,
                 kw_size=None, prefix_kw="", exp_opds=None, accept="always", note=""):
        self.mnem, self.op, self.opds, self.family, self.props, self.tier = mnem, op, opds, family, props, tier
        self.extra_constrain, self.expect, self.opsize = extra_constrain, expect, opsize
        self.prefix_kw = prefix_kw
        self.exp_opds = exp_opds     # list describing decoded operand order: ints = slot index, 'mem', 'imm', 'cl', 'one'
        self.note = note

    # ---------- text
    def line(self):
        parts = []
        si = 0
        for o in self.opds:
            if isinstance(o, R):
                parts.append(o.ph + SLOT[si]); si += 1
            elif isinstance(o, Mem):
                parts.append((o.kw + " " if o.kw else "") + MEMFORMS[o.form][0])
            elif isinstance(o, Imm):
                parts.append(IMM_TEXT[(o.cls, o.neg)])
            elif o == 'one':
                parts.append("1")
        txt = self.mnem + (" " + self.prefix_kw if self.prefix_kw else "")
        if parts:
            txt += " " + ", ".join(parts)
        return txt

    def name(self):
        t = []
        for o in self.opds:
            if isinstance(o, R):
                t.append("+".join(k.lower() for k in o.kinds) if not o.fixed else "cl")
            elif isinstance(o, Mem):
                t.append("m[%s%s]" % (o.form, ":" + o.kw if o.kw else ""))
            elif isinstance(o, Imm):
                t.append("imm_%s%s" % (o.cls, "neg" if o.neg else ""))
            else:
                t.append(str(o))
        return "%s%s(%s)%s" % (self.mnem, "." + self.prefix_kw if self.prefix_kw else "", ",".join(t), getattr(self, "name_suffix", ""))

    # ---------- constraints on ghosts
    def constrain(self):
        c = []
        si = 0
        mem = None
        imm = None
        for o in self.opds:
            if isinstance(o, R):
                mask = " | ".join("M(S1_K_%s)" % k for k in o.kinds)
                c.append("ASSUME(kind_ok(g_kind[%d], g_num[%d], %s));" % (si, si, mask))
                if o.fixed:
                    c.append("ASSUME(g_kind[%d] == S1_K_%s && g_num[%d] == %d);" % (si, o.fixed[0], si, o.fixed[1]))
                si += 1
            elif isinstance(o, Mem):
                mem = o
            elif isinstance(o, Imm):
                imm = o
        for k in range(si, 4):
            c.append("ASSUME(g_kind[%d] == 0 && g_num[%d] == 0);" % (k, k))
        if mem:
            _, hb, hi, sc, dsp = MEMFORMS[mem.form]
            if hb:
                c.append("ASSUME((g_bkind == S1_K_R64 || g_bkind == S1_K_R32) && g_bnum >= 0 && g_bnum <= 15);")
            else:
                c.append("ASSUME(g_bkind == 0 && g_bnum == 0);")
            if hi:
                c.append("ASSUME((g_ikind == S1_K_R64 || g_ikind == S1_K_R32) && g_inum >= 0 && g_inum <= 15);")
                if hb:
                    c.append("ASSUME(g_ikind == g_bkind);")
                # the stack pointer cannot be an index; the unscaled written form is the swap case (own shapes)
                if getattr(self, "sp_reject", False):
                    # C10: the stack pointer as scaled index, or as both base and index
                    c.append("ASSUME(g_inum == 4);" if mem.form != "b+i" else "ASSUME(g_inum == 4 && g_bnum == 4);")
                elif mem.form not in ("b+i",):
                    c.append("ASSUME(g_inum != 4);")
                else:
                    c.append("ASSUME(!(g_inum == 4 && g_bnum == 4));")
            else:
                c.append("ASSUME(g_ikind == 0 && g_inum == 0);")
            if dsp > 0:
                c.append("ASSUME(g_dneg == 0 && g_dmag <= 0x7fffffffUL);")
            elif dsp < 0:
                c.append("ASSUME(g_dneg == 1 && g_dmag >= 1 && g_dmag <= 0x80000000UL);")
            else:
                c.append("ASSUME(g_dneg == 0 && g_dmag == 0);")
        else:
            c.append("ASSUME(g_bkind == 0 && g_bnum == 0 && g_ikind == 0 && g_inum == 0 && g_dneg == 0 && g_dmag == 0);")
        if imm:
            c.append("ASSUME(g_ineg == %d);" % (1 if imm.neg else 0))
            if imm.cls == "hex":
                c.append("ASSUME(g_imag <= 0x0fffffffffffffffUL);   /* fewer than 16 hex digits */")
            if imm.neg:
                c.append("ASSUME(g_imag >= 1);")
        else:
            c.append("ASSUME(g_ineg == 0 && g_imag == 0);")
        # x86-64 cannot encode a legacy high-byte register together with a REX-requiring register
        c.append("{ int hb_ = 0, rex_ = 0, k_; for (k_ = 0; k_ < 4; k_++) { if (g_kind[k_] == S1_K_R8H) hb_ = 1; "
                 "if ((g_kind[k_] == S1_K_R8 && g_num[k_] >= 4) || (g_kind[k_] != 0 && g_num[k_] >= 8) || g_kind[k_] == S1_K_R64) rex_ = 1; } "
                 "if (g_bnum >= 8 || g_inum >= 8) rex_ = 1; ASSUME(!(hb_ && rex_)); }")
        # open known findings (known_findings.txt): carve-outs as narrow as the confirmed failures - active only while the
        # entry is open (macros defined in elemma.c under #ifdef KF_<id>)
        if mem and imm and self.opds and isinstance(self.opds[0], Mem) and self.family == "alu.mi":
            if mem.kw == "word":
                c.append("KF_C03_MEMWORD_IMM_CARVE")
            if not MEMFORMS[mem.form][1]:
                c.append("KF_C03_NOBASE_IMM_CARVE")
        if self.extra_constrain:
            c.append(self.extra_constrain)
        return "\n  ".join(c)

    def mem(self):
        for o in self.opds:
            if isinstance(o, Mem):
                return o
        return None

    def imm(self):
        for o in self.opds:
            if isinstance(o, Imm):
                return o
        return None

    def nreg(self):
        return sum(1 for o in self.opds if isinstance(o, R))

    # ---------- expectations
    def expectations(self):
        e = []
        if getattr(self, "op_check", None):
            e.append(self.op_check)
        else:
            e.append('CHECK(DI.op == %s, "decodes as the operation written (%s)");' % (self.op, self.mnem))
        order = self.exp_opds
        if order is None:
            order, si = [], 0
            for o in self.opds:
                if isinstance(o, R):
                    order.append(si); si += 1
                elif isinstance(o, Mem):
                    order.append('mem')
                elif isinstance(o, Imm):
                    order.append('imm')
                else:
                    order.append(o)
        if not getattr(self, "skip_nopd", False):
            e.append('CHECK(DI.nopd == %d, "same number of operands");' % len(order))
        for i, x in enumerate(order if not getattr(self, "no_opd_checks", False) else []):
            if isinstance(x, int):
                e.append('CHECK(REG_IS(%d, %d), "operand %d is the register written");' % (i, x, i + 1))
            elif x == 'mem':
                e.append('CHECK(OPD_KIND(%d, S1_K_MEM), "operand %d is the memory operand");' % (i, i + 1))
            elif x == 'imm':
                e.append('CHECK(OPD_KIND(%d, S1_K_IMM), "operand %d is an immediate");' % (i, i + 1))
            elif x == 'cl':
                e.append('CHECK(OPD_KIND(%d, S1_K_R8) && DI.opd[%d].reg == 1, "operand %d is cl");' % (i, i, i + 1))
            elif x == 'one':
                e.append('CHECK(OPD_KIND(%d, S1_K_ONE) || (OPD_KIND(%d, S1_K_IMM) && (DI.imm & 0xff) == 1), "shift count is 1");' % (i, i))
            elif x == 'rel':
                e.append('CHECK(OPD_KIND(%d, S1_K_REL), "operand is a relative target");' % i)
        m = self.mem()
        if m:
            _, hb, hi, sc, dsp = MEMFORMS[m.form]
            e.append('CHECK(DI.has_mem && !DI.rip_rel, "memory operand is encoded (not RIP-relative)");')
            if hb or hi:
                e.append('CHECK(DI.asize == (%s == S1_K_R32 ? 32 : 64), "address size as written");' % ("g_bkind" if hb else "g_ikind"))
            else:
                e.append('CHECK(DI.asize == 64, "absolute address uses 64-bit addressing");')
            if m.form == "b+i":
                # documented exception: STRICT swap option encodes a stack-pointer index literally
                e.append('if (g_inum == 4 && !(g_opt & 4)) CHECK(DI.has_base && DI.base == g_bnum && !DI.has_index, "STRICT: stack-pointer index encoded literally as documented");')
                e.append('else CHECK(mem_same_address(1, 1, 1), "same base + index*scale as written");')
            else:
                e.append('CHECK(mem_same_address(%d, %d, %d), "same base + index*scale as written");' % (hb, hi, sc))
                if hi and not hb:
                    # C11: the scale*index rewriting ([2*r] -> [r+r], [1*r] -> [r]) happens only when the no-base option is NASM
                    e.append('if (!(g_opt & 8)) CHECK(!DI.has_base && DI.has_index && DI.index == g_inum && DI.scale == %d, "STRICT no-base option: scale*index is encoded literally (no base register, the written scale)");' % sc)
                if hi and hb:
                    # C11: base and index are exchanged only for a stack-pointer index under the NASM swap option (own shape "b+i")
                    e.append('if (!(g_opt & 4) && %d != 1) CHECK(DI.has_base && DI.base == g_bnum && DI.has_index && DI.index == g_inum, "STRICT swap option: base and index are encoded as written");' % sc)
            e.append('CHECK(DI.disp == V_DISP, "same sign-extended displacement as written");')
        if self.expect:
            e.append(self.expect)
        return "\n  ".join(e)

    def gen_h(self):
        if getattr(self, "sp_reject", False):
            return ('#define LINE "%s\\n"\n#define E_EXPECT_REJECT 1\n#define E_CONSTRAIN \\\n  %s\n#define E_EXPECT\n' % (self.line(), self.constrain().replace("\n", " \\\n")))
        return ('#define LINE "%s\\n"\n#define E_CONSTRAIN \\\n  %s\n#define E_EXPECT \\\n  %s\n' %
                (self.line(), self.constrain().replace("\n", " \\\n"), self.expectations().replace("\n", " \\\n")))


# ---------------------------------------------------------------- expectation snippets
def opsize_is(expr):
    return 'CHECK(DI.opsize == (%s), "same operand size as written");' % expr


SAMEW2 = "ASSUME(kind_bits(g_kind[0]) == kind_bits(g_kind[1]));"
W0 = "kind_bits(g_kind[0])"
KWBITS = {"byte": 8, "word": 16, "dword": 32, "qword": 64}


def imm_alu(wexpr):
    """ALU-style immediate at operand width w: representable (64-bit ops take a sign-extended imm32)"""
    return ("ASSUME((%s) == 64 ? FITS_S(V_IMM, 32) : FITS(V_IMM, (%s)));" % (wexpr, wexpr),
            'CHECK(DI.has_imm && (DI.imm & MASKW(%s)) == (V_IMM & MASKW(%s)), "immediate decodes to the written value at the operand width");' % (wexpr, wexpr))


def supported_mnemonics():
    """the intended instruction set: the enumerators of asm_instr in /repo's enums.h (nopN rows share the enumerator nop)"""
    import os, re, vf
    txt = open(os.path.join(vf.REPO, "src", "enums.h")).read()
    m = re.search(r"typedef enum \{\s*EOI,(.*?)\}\s*asm_instr;", txt, re.S)
    names = set(re.findall(r"\b([a-z][a-z0-9_]*)\b", re.sub(r"//.*", "", m.group(1)))) if m else set()
    return names | {"nop%d" % k for k in range(2, 12)}


def shapes():
    sup = supported_mnemonics()
    return [s for s in _shapes() if s.mnem in sup]


def _shapes():
    S = []
    P1, P2, P3, P4, P5, P11 = "C01", "C02", "C03", "C04", "C05", "C11"

    def add(*a, **kw):
        S.append(Shape(*a, **kw))

    def memforms(tier_all="thorough"):
        return [(f, "quick" if f in MEM_QUICK else tier_all) for f in MEM_ALL]

    # ---- A: two-operand ALU
    alu = {"adc": "S1_OP_ADC", "add": "S1_OP_ADD", "and": "S1_OP_AND", "cmp": "S1_OP_CMP", "or": "S1_OP_OR",
           "sbb": "S1_OP_SBB", "sub": "S1_OP_SUB", "xor": "S1_OP_XOR", "mov": "S1_OP_MOV", "test": "S1_OP_TEST", "xchg": "S1_OP_XCHG"}
    for mn, op in alu.items():
        q = "quick" if mn in ("add", "mov", "test", "xchg") else "thorough"
        # xchg and test are symmetric: either operand order of the decoded pair denotes the same instruction
        sym = mn in ("xchg", "test")
        eo = None
        exp = opsize_is(W0)
        if sym:
            add(mn, op, [R(GALL), R(GALL)], "alu.rr", [P1, P11], q, extra_constrain=SAMEW2, exp_opds=[0, 1],
                expect=exp + ' CHECK(DI.nopd == 2 && ((REG_IS(0, 0) && REG_IS(1, 1)) || (REG_IS(0, 1) && REG_IS(1, 0))), "same pair of registers (operation is symmetric)");')
            S[-1].no_opd_checks = True
            if mn == "xchg":
                # 90 / 66 90 / 48 90: exchanging the 16- or 64-bit accumulator with itself IS a nop (not so for eax: it zero-extends)
                S[-1].op_check = ('{ int self_ = g_num[0] == 0 && g_num[1] == 0 && kind_bits(g_kind[0]) != 32 && kind_bits(g_kind[0]) != 8; '
                                  'CHECK(DI.op == S1_OP_XCHG || (self_ && DI.op == S1_OP_NOP), "decodes as the operation written (xchg)"); '
                                  'if (self_ && DI.op == S1_OP_NOP) { REACH_OK; return; } }')
        else:
            add(mn, op, [R(GALL), R(GALL)], "alu.rr", [P1, P11], q, extra_constrain=SAMEW2, expect=exp)
        for f, t in memforms():
            tt = t if q == "quick" else "thorough"
            if mn not in ("test",):
                sh = Shape(mn, op, [R(GALL), Mem(f)], "alu.rm", [P2, P11], tt, expect=opsize_is(W0) + ' CHECK(DI.mem_bits == %s, "access width is the register width");' % W0)
                if mn == "xchg":
                    sh.exp_opds = [0, 'mem']; sh.no_opd_checks = True
                    sh.expect += ' CHECK(DI.nopd == 2 && ((REG_IS(0, 0) && OPD_KIND(1, S1_K_MEM)) || (REG_IS(1, 0) && OPD_KIND(0, S1_K_MEM))), "register and memory operand as written");'
                S.append(sh)
            if mn != "xchg":
                sh = Shape(mn, op, [Mem(f), R(GALL)], "alu.mr", [P2, P11], tt, expect='CHECK(DI.opsize == kind_bits(g_kind[0]) && DI.mem_bits == kind_bits(g_kind[0]), "operand size and access width are the register width");')
                if mn == "test":
                    sh.exp_opds = ['mem', 0]; sh.no_opd_checks = True
                    sh.expect += ' CHECK(DI.nopd == 2 && ((REG_IS(0, 0) && OPD_KIND(1, S1_K_MEM)) || (REG_IS(1, 0) && OPD_KIND(0, S1_K_MEM))), "register and memory operand as written");'
                S.append(sh)
        if mn != "xchg":
            for cls, neg in (("hex", False), ("hex", True), ("dec", False), ("dec", True)):
                tq = q if (cls, neg) in (("hex", False), ("dec", True)) else "thorough"
                if mn == "mov":
                    # mov r, imm: every width; r64 gets its own C03/C11 shapes below
                    pre = "ASSUME(FITS(V_IMM, %s));" % W0
                    ex = 'CHECK(DI.has_imm && DI.opsize == %s && (DI.imm & MASKW(%s)) == (V_IMM & MASKW(%s)), "immediate decodes to the written value at the register width");' % (W0, W0, W0)
                    add(mn, op, [R(G8 + ['R16', 'R32']), Imm(cls, neg)], "mov.ri", [P3, P11], tq, extra_constrain=pre, expect=ex)
                else:
                    pre, ex = imm_alu(W0)
                    add(mn, op, [R(GALL), Imm(cls, neg)], "alu.ri", [P3, P11], tq, extra_constrain=pre, expect=opsize_is(W0) + " " + ex)
                for kw in ("byte", "word", "dword", "qword"):
                    w = KWBITS[kw]
                    pre, ex = imm_alu(str(w))
                    for f in (["b+d", "b+i*4+d"] if tq == "quick" and kw in ("byte", "qword") else []) + []:
                        add(mn, op, [Mem(f, kw), Imm(cls, neg)], "alu.mi", [P3, P2, P11], "quick", extra_constrain=pre,
                            expect=opsize_is(str(w)) + ' CHECK(DI.mem_bits == %d, "access width as the keyword says");' % w + " " + ex)
                    for f in ["b", "b+d", "b-d", "b+i*4+d", "4*i+d", "d"]:
                        add(mn, op, [Mem(f, kw), Imm(cls, neg)], "alu.mi", [P3, P2, P11], "thorough", extra_constrain=pre,
                            expect=opsize_is(str(w)) + ' CHECK(DI.mem_bits == %d, "access width as the keyword says");' % w + " " + ex)
    # ---- mov r64, imm : the value that ends up in the register (C03) and the form the mode fixes (C11)
    for cls, neg in (("hex", False), ("hex16", False), ("dec", False), ("hex", True), ("dec", True)):
        narrow_allowed = "1" if cls != "hex16" else "0"
        ex = ('CHECK(DI.has_imm && OPD_KIND(0, S1_K_R64) ? DI.imm == V_IMM : (OPD_KIND(0, S1_K_R32) && (DI.imm & 0xffffffffUL) == V_IMM && V_IMM <= 0xffffffffUL), '
              '"mov r64, v leaves v in the full register (SDM: r32 destination zero-extends, imm32 of REX.W C7 sign-extends)");'
              ' CHECK(DI.opd[0].reg == g_num[0], "destination is the register written");'
              ' { int nasm_ = (g_opt & 1) && !(g_opt & 2), smart_ = (g_opt & 2) != 0, fits_ = V_IMM <= 0xffffffffUL;'
              '   int want32_ = fits_ && (nasm_ || (smart_ && %s));'
              '   CHECK(want32_ == OPD_KIND(0, S1_K_R32), "narrowed to the 32-bit destination form exactly when the mov-immediate mode says so"); }' % narrow_allowed)
        add("mov", "S1_OP_MOV", [R('R64'), Imm(cls, neg)], "mov.r64imm", [P3, P11] + (["C12"] if (cls, neg) in (("hex", False), ("hex16", False)) else []), "quick", exp_opds=[0, 'imm'], expect=ex)
        S[-1].no_opd_checks = True
    # ---- lea
    for f, t in memforms("quick"):
        # the discriminating probes of C12 (behaviour follows the stored bits of each dimension separately): [2*i], [1*i], [b+i]
        add("lea", "S1_OP_LEA", [R(GV), Mem(f)], "lea", [P2, P11] + (["C12"] if f in ("2*i", "1*i", "b+i") else []), t, expect=opsize_is(W0))
    # ---- C10: the stack pointer cannot be scaled, nor be base and index at once: rejected, for every base / address size / option
    for f in ("b+i*2+d", "b+i*4", "b+i*8-dec", "b+8*i+d", "b+2*i", "2*i", "4*i+d", "8*i-d", "b+i"):
        sh = Shape("lea", "S1_OP_LEA", [R(GV), Mem(f)], "reject.sp", ["C10"], "quick" if f in ("b+i*4", "2*i", "b+i") else "thorough")
        sh.sp_reject = True
        sh.name_suffix = ".sp_index"
        S.append(sh)
    # ---- movzx
    add("movzx", "S1_OP_MOVZX", [R(GV), R(G8 + ['R16'])], "movzx.rr", [P1, P11], "quick",
        extra_constrain="ASSUME(kind_bits(g_kind[0]) > kind_bits(g_kind[1]));", expect=opsize_is(W0))
    for kw in ("byte", "word"):
        for f, t in memforms():
            add("movzx", "S1_OP_MOVZX", [R(GV), Mem(f, kw)], "movzx.rm", [P2], t,
                extra_constrain="ASSUME(kind_bits(g_kind[0]) > %d);" % KWBITS[kw],
                expect=opsize_is(W0) + ' CHECK(DI.mem_bits == %d, "source access width as the keyword says");' % KWBITS[kw])
    # ---- unary group
    for mn, op in (("dec", "S1_OP_DEC"), ("inc", "S1_OP_INC"), ("neg", "S1_OP_NEG"), ("not", "S1_OP_NOT")):
        add(mn, op, [R(GALL)], "unary.r", [P1, P11], "quick" if mn in ("inc", "neg") else "thorough", expect=opsize_is(W0))
        for kw in ("byte", "word", "dword", "qword"):
            for f, t in memforms():
                add(mn, op, [Mem(f, kw)], "unary.m", [P2], t if mn == "neg" and kw in ("byte", "qword") else "thorough",
                    expect=opsize_is(str(KWBITS[kw])) + ' CHECK(DI.mem_bits == %d, "access width as the keyword says");' % KWBITS[kw])
    add("imul", "S1_OP_IMUL", [R(GALL)], "imul.r", [P1], "quick", expect=opsize_is(W0))
    add("imul", "S1_OP_IMUL", [R(GV), R(GV)], "imul.rr", [P1, P11], "quick", extra_constrain=SAMEW2, expect=opsize_is(W0))
    for f, t in memforms():
        add("imul", "S1_OP_IMUL", [R(GV), Mem(f)], "imul.rm", [P2], t, expect=opsize_is(W0))
    for cls, neg in (("hex", False), ("hex", True), ("dec", False), ("dec", True)):
        pre, ex = imm_alu(W0)
        add("imul", "S1_OP_IMUL", [R(GV), R(GV), Imm(cls, neg)], "imul.rri", [P3, P1], "quick" if not neg else "thorough",
            extra_constrain=SAMEW2 + " " + pre, expect=opsize_is(W0) + " " + ex)
        for f in ("b+d", "b+i*4+d"):
            add("imul", "S1_OP_IMUL", [R(GV), Mem(f), Imm(cls, neg)], "imul.rmi", [P3, P2], "thorough", extra_constrain=pre, expect=opsize_is(W0) + " " + ex)
    # ---- shifts
    sh = {"rcr": "S1_OP_RCR", "ror": "S1_OP_ROR", "sal": "S1_OP_SHL", "sar": "S1_OP_SAR", "shl": "S1_OP_SHL", "shr": "S1_OP_SHR"}
    for mn, op in sh.items():
        oper = '(DI.op == %s%s)' % (op, " || DI.op == S1_OP_SAL6" if mn in ("sal", "shl") else "")
        base_exp = opsize_is(W0)
        for cls in ("hex", "dec"):
            s_ = Shape(mn, op, [R(GALL), Imm(cls, False)], "shift.ri", [P3, P1], "quick" if cls == "hex" else "thorough",
                       extra_constrain="ASSUME(V_IMM <= 0xff && V_IMM != 1);",
                       expect=base_exp + ' CHECK(DI.has_imm && (DI.imm & 0xff) == V_IMM, "shift count is the written value");')
            S.append(s_)
        add(mn, op, [R(GALL), 'one'], "shift.r1", [P1, P3], "quick", expect=base_exp)
        if mn not in ("ror", "rcr"):
            add(mn, op, [R(GALL), R('R8', fixed=('R8', 1))], "shift.rcl", [P1], "quick", exp_opds=[0, 'cl'], expect=base_exp)
        if mn not in ("ror", "rcr"):
            for kw in ("byte", "qword", "word", "dword"):
                for f in ("b+d", "b+i*4+d"):
                    add(mn, op, [Mem(f, kw), R('R8', fixed=('R8', 1))], "shift.mcl", [P2, P1], "thorough", exp_opds=['mem', 'cl'],
                        expect=opsize_is(str(KWBITS[kw])) + ' CHECK(DI.mem_bits == %d, "access width as the keyword says");' % KWBITS[kw])
        if mn != "ror":
            for kw in ("byte", "qword", "word", "dword"):
                for f in ("b+d", "b+i*4+d"):
                    add(mn, op, [Mem(f, kw), Imm("hex", False)], "shift.mi", [P3, P2], "thorough",
                        extra_constrain="ASSUME(V_IMM <= 0xff && V_IMM != 1);",
                        expect=opsize_is(str(KWBITS[kw])) + ' CHECK(DI.has_imm && (DI.imm & 0xff) == V_IMM, "shift count is the written value");')
    for s_ in S:
        if s_.family.startswith("shift") and s_.mnem in ("sal", "shl"):
            s_.expect = s_.expect  # SAL /6 alias accepted through the op check below
    # ---- shld / shrd
    for mn, op in (("shld", "S1_OP_SHLD"), ("shrd", "S1_OP_SHRD")):
        add(mn, op, [R(GV), R(GV), Imm("hex", False)], "shxd.rri", [P3, P1], "quick", extra_constrain=SAMEW2 + " ASSUME(V_IMM <= 0xff);",
            expect=opsize_is(W0) + ' CHECK(DI.has_imm && (DI.imm & 0xff) == V_IMM, "shift count is the written value");')
        if True:
            add(mn, op, [R(GV), R(GV), R('R8', fixed=('R8', 1))], "shxd.rrcl", [P1], "quick", extra_constrain=SAMEW2, exp_opds=[0, 1, 'cl'], expect=opsize_is(W0))
        for f in ("b+d", "b+i*4+d"):
            add(mn, op, [Mem(f), R(GV), R('R8', fixed=('R8', 1))], "shxd.mrcl", [P2, P1], "thorough", exp_opds=['mem', 0, 'cl'],
                expect='CHECK(DI.opsize == kind_bits(g_kind[0]), "operand size is the register width");')
        for f in ("b+d", "b+i*4+d"):
            add(mn, op, [Mem(f), R(GV), Imm("hex", False)], "shxd.mri", [P3, P2], "thorough", extra_constrain="ASSUME(V_IMM <= 0xff);",
                expect='CHECK(DI.opsize == kind_bits(g_kind[0]), "operand size is the register width"); CHECK(DI.has_imm && (DI.imm & 0xff) == V_IMM, "shift count is the written value");')
    # ---- cmovcc / setcc / jcc
    for cc, n in CC.items():
        add("cmov" + cc, "S1_OP_CMOVCC + %d" % n, [R(GV), R(GV)], "cmov.rr", [P1], "quick" if cc in ("a", "nae", "z") else "thorough", extra_constrain=SAMEW2, expect=opsize_is(W0))
        for f in (MEM_QUICK if cc == "ne" else ["b+i*4+d"]):
            add("cmov" + cc, "S1_OP_CMOVCC + %d" % n, [R(GV), Mem(f)], "cmov.rm", [P2], "thorough", expect=opsize_is(W0))
        add("set" + cc, "S1_OP_SETCC + %d" % n, [R(G8)], "setcc.r", [P1], "quick" if cc in ("a", "nae", "z") else "thorough", expect=opsize_is("8"))
        for f in (MEM_QUICK if cc == "ne" else ["b+i*4+d"]):
            add("set" + cc, "S1_OP_SETCC + %d" % n, [Mem(f)], "setcc.m", [P2], "thorough", expect=opsize_is("8"))
    # ---- push/pop
    add("push", "S1_OP_PUSH", [R(['R64', 'R16'])], "push.r", [P1], "quick", expect=opsize_is(W0))
    add("pop", "S1_OP_POP", [R(['R64', 'R16'])], "pop.r", [P1], "quick", expect=opsize_is(W0))
    for f, t in memforms():
        add("push", "S1_OP_PUSH", [Mem(f)], "push.m", [P2], t, expect=opsize_is("64"))
    for cls, neg in (("hex", False), ("hex", True), ("dec", False), ("dec", True)):
        add("push", "S1_OP_PUSH", [Imm(cls, neg)], "push.i", [P3], "quick" if cls == "hex" else "thorough",
            extra_constrain="ASSUME(FITS_S(V_IMM, 32));", expect='CHECK(DI.has_imm && DI.imm == V_IMM, "pushed value is the written value (sign-extended to 64 bits)");')
    # ---- no-operand
    for mn, op in (("clc", "S1_OP_CLC"), ("cpuid", "S1_OP_CPUID"), ("lfence", "S1_OP_LFENCE"), ("mfence", "S1_OP_MFENCE"), ("sfence", "S1_OP_SFENCE"),
                   ("rdpmc", "S1_OP_RDPMC"), ("rdtsc", "S1_OP_RDTSC"), ("rdtscp", "S1_OP_RDTSCP"), ("ret", "S1_OP_RET"), ("xend", "S1_OP_XEND")):
        add(mn, op, [], "noopd", [P1, P11], "quick")
    for k in range(1, 12):
        add("nop" + (str(k) if k > 1 else ""), "S1_OP_NOP", [], "nop", [P1, P11], "quick", exp_opds=[],
            expect='CHECK(g_n == %d, "nop%d is %d byte(s) long");' % (k, k, k))
        S[-1].skip_nopd = True
    add("xabort", "S1_OP_XABORT", [Imm("hex", False)], "xabort", [P3], "quick", extra_constrain="ASSUME(V_IMM <= 0xff);", exp_opds=['imm'],
        expect='CHECK(DI.has_imm && (DI.imm & 0xff) == V_IMM, "abort code is the written value");')
    # ---- clflush / prefetch
    for mn, op in (("clflush", "S1_OP_CLFLUSH"), ("prefetchnta", "S1_OP_PREFETCHNTA"), ("prefetcht0", "S1_OP_PREFETCHT0"),
                   ("prefetcht1", "S1_OP_PREFETCHT1"), ("prefetcht2", "S1_OP_PREFETCHT2")):
        for f, t in memforms():
            add(mn, op, [Mem(f)], "memonly", [P2], t if mn == "clflush" else "thorough")
    # ---- adcx / adox
    for mn, op in (("adcx", "S1_OP_ADCX"), ("adox", "S1_OP_ADOX")):
        add(mn, op, [R(['R32', 'R64']), R(['R32', 'R64'])], "adx.rr", [P4, P1], "quick", extra_constrain=SAMEW2, expect=opsize_is(W0))
        for f, t in memforms():
            add(mn, op, [R(['R32', 'R64']), Mem(f)], "adx.rm", [P2, P4], t if mn == "adcx" else "thorough", expect=opsize_is(W0))
    # ---- BMI2
    W3 = "ASSUME(kind_bits(g_kind[0]) == kind_bits(g_kind[1]) && kind_bits(g_kind[0]) == kind_bits(g_kind[2]));"
    for mn, op in (("bextr", "S1_OP_BEXTR"), ("bzhi", "S1_OP_BZHI"), ("sarx", "S1_OP_SARX"), ("shlx", "S1_OP_SHLX"), ("shrx", "S1_OP_SHRX"), ("mulx", "S1_OP_MULX")):
        add(mn, op, [R(['R32', 'R64']), R(['R32', 'R64']), R(['R32', 'R64'])], "bmi.rrr", [P4, P1], "quick", extra_constrain=W3, expect=opsize_is(W0))
        for f, t in memforms():
            tt = t if mn in ("bextr", "mulx") else "thorough"
            if mn == "mulx":
                add(mn, op, [R(['R32', 'R64']), R(['R32', 'R64']), Mem(f)], "bmi.rrm", [P2, P4], tt, extra_constrain=SAMEW2, expect=opsize_is(W0))
            else:
                add(mn, op, [R(['R32', 'R64']), Mem(f), R(['R32', 'R64'])], "bmi.rmr", [P2, P4], tt, extra_constrain=SAMEW2, expect=opsize_is(W0))
    add("rorx", "S1_OP_RORX", [R(['R32', 'R64']), R(['R32', 'R64']), Imm("hex", False)], "rorx.rri", [P4, P3], "quick",
        extra_constrain=SAMEW2 + " ASSUME(V_IMM <= 0xff);", expect=opsize_is(W0) + ' CHECK((DI.imm & 0xff) == V_IMM, "rotate count is the written value");')
    for f, t in memforms():
        add("rorx", "S1_OP_RORX", [R(['R32', 'R64']), Mem(f), Imm("hex", False)], "rorx.rmi", [P2, P4], "thorough",
            extra_constrain="ASSUME(V_IMM <= 0xff);", expect=opsize_is(W0) + ' CHECK((DI.imm & 0xff) == V_IMM, "rotate count is the written value");')
    # ---- SSE / MMX
    ssevv = {"cvtdq2pd": "S1_OP_CVTDQ2PD", "cvtpd2dq": "S1_OP_CVTPD2DQ", "divpd": "S1_OP_DIVPD", "mulpd": "S1_OP_MULPD", "punpcklqdq": "S1_OP_PUNPCKLQDQ"}
    for mn, op in ssevv.items():
        add(mn, op, [R('XMM'), R('XMM')], "sse.vv", [P4], "quick")
    pint = {"paddb": "PADDB", "paddw": "PADDW", "paddd": "PADDD", "paddq": "PADDQ", "pand": "PAND", "pandn": "PANDN", "por": "POR", "pxor": "PXOR",
            "psubb": "PSUBB", "psubw": "PSUBW", "psubd": "PSUBD", "psubq": "PSUBQ", "pmulhuw": "PMULHUW", "pmulhw": "PMULHW", "pmullw": "PMULLW",
            "pmuludq": "PMULUDQ", "pmulhrsw": "PMULHRSW", "pmulld": "PMULLD", "pmuldq": "PMULDQ"}
    for mn, o in pint.items():
        op = "S1_OP_" + o
        q = "quick" if mn in ("paddb", "pxor", "pmulhrsw", "pmulld") else "thorough"
        add(mn, op, [R('XMM'), R('XMM')], "sse.vv", [P4], q, expect=opsize_is("128"))
        if mn not in ("pmulld", "pmuldq"):
            add(mn, op, [R('MM'), R('MM')], "mmx.rr", [P4], q, expect=opsize_is("64"))
        for f in (MEM_ALL if mn == "paddb" else ["b+i*4+d"]):
            add(mn, op, [R('XMM'), Mem(f)], "sse.vm", [P2, P4], "quick" if (mn == "paddb" and f in MEM_QUICK) else "thorough", expect=opsize_is("128"))
            if mn not in ("pmulld", "pmuldq"):
                add(mn, op, [R('MM'), Mem(f)], "mmx.rm", [P2, P4], "quick" if (mn == "paddb" and f in MEM_QUICK) else "thorough", expect=opsize_is("64"))
    add("psrldq", "S1_OP_PSRLDQ", [R('XMM'), Imm("hex", False)], "sse.vi", [P4, P3], "quick", extra_constrain="ASSUME(V_IMM <= 0xff);",
        expect='CHECK((DI.imm & 0xff) == V_IMM, "byte count is the written value");')
    # movd / movq / movnt
    add("movd", "S1_OP_MOVD", [R('XMM'), R('R32')], "movd.vr", [P4], "quick")
    add("movd", "S1_OP_MOVD", [R('R32'), R('XMM')], "movd.rv", [P4], "quick")
    add("movq", "S1_OP_MOVQ", [R('XMM'), R('R64')], "movq.vr", [P4], "quick")
    add("movq", "S1_OP_MOVQ", [R('R64'), R('XMM')], "movq.rv", [P4], "quick")
    add("movq", "S1_OP_MOVQ", [R('XMM'), R('XMM')], "movq.vv", [P4], "quick")
    for f, t in memforms():
        add("movd", "S1_OP_MOVD", [R('XMM'), Mem(f)], "movd.vm", [P2, P4], "thorough", expect='CHECK(DI.mem_bits == 32, "movd accesses 32 bits");')
        add("movd", "S1_OP_MOVD", [Mem(f), R('XMM')], "movd.mv", [P2, P4], "thorough", expect='CHECK(DI.mem_bits == 32, "movd accesses 32 bits");')
        add("movq", "S1_OP_MOVQ", [R('XMM'), Mem(f)], "movq.vm", [P2, P4], t, expect='CHECK(DI.mem_bits == 64, "movq accesses 64 bits");')
        add("movq", "S1_OP_MOVQ", [Mem(f), R('XMM')], "movq.mv", [P2, P4], t, expect='CHECK(DI.mem_bits == 64, "movq accesses 64 bits");')
        add("movntdqa", "S1_OP_MOVNTDQA", [R('XMM'), Mem(f)], "movntdqa", [P2, P4], "thorough")
        add("movntq", "S1_OP_MOVNTQ", [Mem(f), R('MM')], "movntq", [P2, P4], "thorough")
    # ---- AVX
    avx3 = {"vaddpd": "VADDPD", "vdivpd": "VDIVPD", "vmulpd": "VMULPD", "vsubpd": "VSUBPD", "vpaddb": "VPADDB", "vpaddw": "VPADDW", "vpaddd": "VPADDD",
            "vpaddq": "VPADDQ", "vpand": "VPAND", "vpandn": "VPANDN", "vpor": "VPOR", "vpxor": "VPXOR", "vpsubb": "VPSUBB", "vpsubw": "VPSUBW",
            "vpsubd": "VPSUBD", "vpsubq": "VPSUBQ", "vpmulhuw": "VPMULHUW", "vpmulhw": "VPMULHW", "vpmullw": "VPMULLW", "vpmuludq": "VPMULUDQ",
            "vpmuldq": "VPMULDQ", "vpmulhrsw": "VPMULHRSW", "vpmulld": "VPMULLD", "vpermd": "VPERMD"}
    for mn, o in avx3.items():
        op = "S1_OP_" + o
        q = "quick" if mn in ("vaddpd", "vpaddb", "vpermd", "vpmulld") else "thorough"
        add(mn, op, [R('YMM'), R('YMM'), R('YMM')], "avx.yyy", [P4], q, expect=opsize_is("256"))
        if mn not in ("vaddpd", "vdivpd", "vmulpd", "vsubpd", "vpermd"):
            add(mn, op, [R('XMM'), R('XMM'), R('XMM')], "avx.vvv", [P4], q, expect=opsize_is("128"))
        for f in (MEM_ALL if mn == "vpaddb" else ["b+i*4+d"]):
            add(mn, op, [R('YMM'), R('YMM'), Mem(f)], "avx.yym", [P2, P4], "quick" if (mn == "vpaddb" and f in MEM_QUICK) else "thorough", expect=opsize_is("256"))
            if mn not in ("vaddpd", "vdivpd", "vmulpd", "vsubpd", "vpermd"):
                add(mn, op, [R('XMM'), R('XMM'), Mem(f)], "avx.vvm", [P2, P4], "thorough", expect=opsize_is("128"))
    for mn, op in (("vperm2i128", "S1_OP_VPERM2I128"), ("vperm2f128", "S1_OP_VPERM2F128")):
        add(mn, op, [R('YMM'), R('YMM'), R('YMM'), Imm("hex", False)], "avx.yyyi", [P4, P3], "quick", extra_constrain="ASSUME(V_IMM <= 0xff);",
            expect=opsize_is("256") + ' CHECK((DI.imm & 0xff) == V_IMM, "selector is the written value");')
        add(mn, op, [R('YMM'), R('YMM'), Mem("b+i*4+d"), Imm("hex", False)], "avx.yymi", [P2, P4], "thorough", extra_constrain="ASSUME(V_IMM <= 0xff);",
            expect=opsize_is("256") + ' CHECK((DI.imm & 0xff) == V_IMM, "selector is the written value");')
    for mn, op in (("vmovupd", "S1_OP_VMOVUPD"), ("vmovdqu", "S1_OP_VMOVDQU")):
        for rk, w in (('YMM', 256), ('XMM', 128)):
            add(mn, op, [R(rk), R(rk)], "avx.mov.rr", [P4], "quick", expect=opsize_is(str(w)))
            for f, t in memforms():
                add(mn, op, [R(rk), Mem(f)], "avx.mov.rm", [P2, P4], t if mn == "vmovdqu" else "thorough", expect=opsize_is(str(w)))
                add(mn, op, [Mem(f), R(rk)], "avx.mov.mr", [P2, P4], t if mn == "vmovdqu" else "thorough", expect=opsize_is(str(w)))
    # ---- indirect call / jmp (C05 register and memory targets)
    for mn, op in (("call", "S1_OP_CALL"), ("jmp", "S1_OP_JMP")):
        add(mn, op, [R('R64')], "branch.r", [P5, P1], "quick", expect=opsize_is("64"))
        for f, t in memforms():
            add(mn, op, [Mem(f)], "branch.m", [P5, P2], t, expect=opsize_is("64"))
    return S


def branch_shapes():
    sup = supported_mnemonics()
    return [s for s in _branch_shapes() if s.mnem in sup]


def _branch_shapes():
    """relative branches: d written as a numeral (C05)"""
    out = []
    rel = [("jmp", "S1_OP_JMP", True), ("call", "S1_OP_CALL", False), ("jrcxz", "S1_OP_JRCXZ", "only8"), ("xbegin", "S1_OP_XBEGIN", "only32")]
    for cc, n in CC.items():
        rel.append(("j" + cc, "S1_OP_JCC + %d" % n, True))
    for mn, op, has8 in rel:
        for cls, neg in (("hex", False), ("dec", False), ("hex", True), ("dec", True)):
            for kw in ("", "short", "long"):
                q = "quick" if mn in ("jmp", "call", "jrcxz", "jne", "xbegin") and cls == "hex" else "thorough"
                inr8 = "((long)V_IMM >= -128 && (long)V_IMM <= 127)"
                pre = "ASSUME((long)V_IMM >= -2147483648L && (long)V_IMM <= 2147483647L);"
                must_accept = kw != "short" and has8 != "only8"
                # accepted lines encode that very operation with that very displacement
                chk = ('CHECK(DI.op == %s, "decodes as the branch written (%s)");' % (op, mn) +
                       ' CHECK(DI.nopd == 1 && OPD_KIND(0, S1_K_REL), "one relative target");' +
                       ' CHECK(DI.rel == (long)V_IMM, "displacement field equals d");' +
                       ' CHECK(DI.rel_bits == 8 || DI.rel_bits == 32, "rel8 or rel32 form");')
                if kw == "long" and has8 != "only8":
                    chk += ' CHECK(DI.rel_bits == 32, "long forces rel32");'
                sh = Shape(mn, op, [Imm(cls, neg)], "branch.rel", ["C05"], q, prefix_kw=kw, extra_constrain=pre, exp_opds=['rel'], expect=chk)
                sh.no_opd_checks = True
                sh.branch = dict(must_accept=must_accept, only8=(has8 == "only8"), short=(kw == "short"), inr8=inr8)
                out.append(sh)
    return out


TSTR = ["", "i", "m", "mi", "mr", "mri", "mrr", "mv", "my", "r", "ri", "rm", "rmi", "rmr", "rr", "rri", "rrm", "rrr", "rv",
        "vi", "vr", "vm", "vv", "vvm", "vvmi", "vvv", "vvvi", "ym", "yy", "yym", "yymi", "yyy", "yyyi"]


def type_string(shape):
    t = ""
    for o in shape.opds:
        if isinstance(o, R):
            t += {'r': 'r', 'm': 'r', 'x': 'v', 'y': 'y'}[o.ph]      # mm registers are scanned as scalar registers
        elif isinstance(o, Mem):
            t += 'm'
        else:
            t += 'i'                                                  # numerals, also the literal 1 of shifts
    return t


def legal_forms():
    """S4 as a map mnemonic -> set of operand-type strings x86-64 defines (and this generator covers by an E-lemma)"""
    legal = {m: set() for m in supported_mnemonics()}
    for s in shapes() + branch_shapes():
        legal[s.mnem].add(type_string(s))
    return legal
