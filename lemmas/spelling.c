/* C16: spelling invariance of the real line filter, 2-run lemmas on symbolic lines of length
 * SPL (bounded; the unbounded facts about the filter are in text.c).  Two lines related by one
 * rewriting step give the same filtered text, hence the same record and the same bytes. */
#include "vf.h"
#include <stdio.h>
#define fprintf(...) ((void)0)
#include "al_unity.h"
#include "libc.h"
#ifndef SPL
#define SPL 20
#endif
static char A[SPL + 4], Bb[SPL + 8], FA[FILTERED_STR_LEN], FB2[FILTERED_STR_LEN];
int g_p;
static int is_term(char c) { return c == ';' || c == '%' || c == '\r' || c == '\n' || c == '\0'; }
static void mk_a(void) { for (int i = 0; i < SPL; i++) { char c; A[i] = c; ASSUME(!is_term(c) && (unsigned char)c <= 0x7e); } A[SPL] = 0; }
#define same_filter(msg) do { \
  for (int i_ = 0; i_ < FILTERED_STR_LEN; i_++) { FA[i_] = 0; FB2[i_] = 0; } \
  int ra_ = filter_assembly_str_fsa(A, FA), rb_ = filter_assembly_str_fsa(Bb, FB2); \
  CHECK(ra_ >= 0 && rb_ >= 0, "neither line is refused by the filter"); \
  for (int i_ = 0; i_ < FILTERED_STR_LEN; i_++) CHECK(FA[i_] == FB2[i_], msg); } while (0)
/* letter case of any subset of the characters */
void h_case(void) { mk_a();
  for (int i = 0; i < SPL; i++) { _Bool flip; char c = A[i]; Bb[i] = (flip && ((c >= 'a' && c <= 'z') || (c >= 'A' && c <= 'Z'))) ? (char)(c ^ 0x20) : c; }
  Bb[SPL] = 0; same_filter("changing letter case does not change the filtered line"); REACH("end"); }
/* one more blank anywhere except inside the mnemonic: in the leading indentation, next to or behind
 * the blank that delimits the mnemonic, anywhere in the operands, at the end of a line that has
 * operands.  (A blank directly behind a mnemonic without operands stays in the filtered text as the
 * delimiter; that case is h_blank_after_mnemonic, decided on the tokenizer's result.) */
void h_blank(void) { mk_a(); GHOST_IN(int, g_p); ASSUME(g_p >= 0 && g_p <= SPL);
  int seen_letter = 0, seen_sep = 0, ok = 0;
  for (int i = 0; i < SPL; i++) {
    if (i == g_p) ok = !seen_letter || seen_sep || A[i] == ' ';
    char c = A[i];
    if (!seen_letter && c >= 'A' && c <= 'z') seen_letter = 1; else if (seen_letter && c == ' ') seen_sep = 1;
  }
  if (g_p == SPL) ok = !seen_letter || seen_sep;          /* trailing blank */
  ASSUME(ok);
  for (int i = 0, j = 0; i <= SPL; i++) { if (i == g_p) Bb[j++] = ' '; Bb[j++] = A[i]; }
  same_filter("an extra blank outside the mnemonic does not change the filtered line"); REACH("end"); }
/* "mnemonic" against "mnemonic " (and with a tab): the filtered texts differ by the trailing
 * delimiter, the real tokenizer gives the same record */
/* operand_tok is used through a contract that may never be called: an operand-less line has no operands */
int operand_tok__never(struct instr *instr_buffer, char *opds, int opd_pos)
  __CPROVER_requires(0)
  __CPROVER_assigns();
void h_blank_after_mnemonic(void) {
  static char M1[FILTERED_STR_LEN], M2[FILTERED_STR_LEN]; int n; ASSUME(n >= 1 && n <= SPL);
  for (int i = 0; i < FILTERED_STR_LEN; i++) { M1[i] = 0; M2[i] = 0; }   /* DFCC makes statics nondeterministic */
  for (int i = 0; i < SPL; i++) { char c; ASSUME(c > ' ' && (unsigned char)c <= 0x7e && c != ','); M1[i] = i < n ? c : 0; M2[i] = M1[i]; }
  M2[n] = ' ';
  struct instr I1 = {0}, I2 = {0};
  int r1 = instr_tok(&I1, M1), r2 = instr_tok(&I2, M2);
  CHECK(r1 == r2, "same tokenizer verdict with and without the trailing blank");
  for (int i = 0; i < INSTRUCTION_CHAR_LEN; i++) CHECK(I1.instruction[i] == I2.instruction[i], "same mnemonic with and without the trailing blank");
  CHECK(I1.opd[0].type == I2.opd[0].type && I1.imm == I2.imm && I1.mem_disp == I2.mem_disp, "no operand appears");
  REACH("end"); }
/* a trailing comment, % text, CR or LF with anything behind it */
void h_tail(void) { mk_a();
  for (int i = 0; i < SPL; i++) Bb[i] = A[i];
  char t; ASSUME(t == ';' || t == '%' || t == '\r' || t == '\n'); Bb[SPL] = t;
  for (int i = SPL + 1; i < SPL + 7; i++) { char c; Bb[i] = c; }
  Bb[SPL + 7] = 0; same_filter("comment / line-end and whatever follows do not change the filtered line"); REACH("end"); }
/* label and blank lines are skipped: no record, success.  line_to_instr is used through a contract
 * that may never be called (requires false): reaching it would fail the obligation. */
int line_to_instr__never(struct instr *instr_data, char *filtered_asm_str)
  __CPROVER_requires(0)
  __CPROVER_assigns();
void h_skip(void) { mk_a(); _Bool kind; GHOST_IN(int, g_p); ASSUME(g_p >= 1 && g_p < SPL);
  if (kind) { ASSUME(A[g_p] == ':' && A[0] >= 'A' && A[0] <= 'z'); }   /* a label: name, then a colon anywhere behind its first letter */
  else { for (int i = 0; i < SPL; i++) ASSUME(A[i] == ' ' || A[i] == '\t'); }   /* blank line */
  struct instr I = {0}; int len = -1;
  int rc = str_to_instr(&I, A, &len);
  CHECK(rc == EXIT_SUCCESS && I.key == SKIP, "label and blank lines are skipped without error");
  CHECK(len == SPL, "the whole line is consumed"); REACH("end"); }
void h_skip_directive(void) {
  char L1[] = "  Section .text ; x\n", L2[] = "GLOBAL test\r\n", L3[] = "section .data", L4[] = "\n";   /* automatic: DFCC makes statics nondeterministic */
  struct instr I = {0}; int len = -1;
  CHECK(str_to_instr(&I, L1, &len) == EXIT_SUCCESS && I.key == SKIP && len == (int)sizeof(L1) - 1, "section line skipped");
  CHECK(str_to_instr(&I, L2, &len) == EXIT_SUCCESS && I.key == SKIP && len == (int)sizeof(L2) - 2, "global line skipped (CR consumed, LF is the next empty line)");
  CHECK(str_to_instr(&I, L3, &len) == EXIT_SUCCESS && I.key == SKIP, "section line without newline skipped");
  CHECK(str_to_instr(&I, L4, &len) == EXIT_SUCCESS && I.key == SKIP && len == 1, "empty line skipped");
  REACH("end"); }
