/* S5 - reference models of the libc functions CBMC has no body for.  They are ASSUMED to be
 * what glibc does (ISO C 7.24.5.7, 7.24.5.8 / POSIX strtok_r); replay/libc_selftest.c compares
 * them with glibc natively on every setup.  Compiled under their real names for cbmc, under
 * m_<name> for the native differential test. */
#ifndef MODELS_LIBC_H
#define MODELS_LIBC_H
#include <stddef.h>
#ifdef LIBC_MODEL_SELFTEST
#define MN(x) m_##x
#else
#define MN(x) x
#endif

static int m_in_set(char c, const char *set) {
  for (size_t i = 0; set[i] != '\0'; i++) if (set[i] == c) return 1;
  return 0;
}

char *MN(strtok_r)(char *s, const char *delim, char **save) {
  if (s == NULL) s = *save;
  if (s == NULL) return NULL;
  while (*s != '\0' && m_in_set(*s, delim)) s++;
  if (*s == '\0') { *save = s; return NULL; }
  char *tok = s;
  while (*s != '\0' && !m_in_set(*s, delim)) s++;
  if (*s != '\0') { *s = '\0'; s++; }
  *save = s;
  return tok;
}

/* strtok: the non-reentrant variant keeps its position in a static object - exactly what makes it
 * unusable here (C18, C06).  Modelled so that a change from strtok_r to strtok is a frame violation
 * (write to an object outside every assigns clause), not an "undefined function". */
static char *m_strtok_save;
char *MN(strtok)(char *s, const char *delim) { return MN(strtok_r)(s, delim, &m_strtok_save); }

#ifdef LIBC_SAFETY_ABSTRACTION
/* Safety-level abstractions (sound over-approximations for memory-safety proofs):
 *  strstr: exact when the needle matches at the start (the only use: strstr(p, kw) == p),
 *          otherwise NULL or ANY later position inside the haystack;
 *  strtoul: reads the string up to its terminator and returns ANY value. */
char *strstr(const char *h, const char *n) {
  size_t j = 0;
  while (n[j] != '\0' && h[j] == n[j]) j++;
  if (n[j] == '\0') return (char *)h;
  size_t len = 0; while (h[len] != '\0') len++;
  size_t k; _Bool none;
  if (none || len < 2) return NULL;
  __CPROVER_assume(k >= 1 && k < len);
  return (char *)(h + k);
}
unsigned long strtoul(const char *s, char **end, int base) {
  size_t i = 0; while (s[i] != '\0') i++;
  unsigned long v; return v;
}
#define LIBC_NO_EXACT_STRSTR 1
#endif
#ifndef LIBC_NO_EXACT_STRSTR
char *MN(strstr)(const char *h, const char *n) {
  if (n[0] == '\0') return (char *)h;
  for (size_t i = 0; h[i] != '\0'; i++) {
    size_t j = 0;
    while (n[j] != '\0' && h[i + j] == n[j]) j++;
    if (n[j] == '\0') return (char *)(h + i);
    if (h[i + j] == '\0') return NULL;
  }
  return NULL;
}
#endif

#ifdef LIBC_MODEL_STRTOUL
/* strtoul for the bases the library uses (10, 16), no locale, optional sign, optional 0x for 16,
 * saturating at ULONG_MAX like glibc (errno not modelled) */
unsigned long MN(strtoul)(const char *s, char **end, int base) {
  size_t i = 0; int neg = 0;
  while (s[i] == ' ' || (s[i] >= '\t' && s[i] <= '\r')) i++;
  if (s[i] == '-') { neg = 1; i++; } else if (s[i] == '+') i++;
  if (base == 16 && s[i] == '0' && (s[i + 1] == 'x' || s[i + 1] == 'X')) {
    char c = s[i + 2];
    if ((c >= '0' && c <= '9') || (c >= 'a' && c <= 'f') || (c >= 'A' && c <= 'F')) i += 2;
  }
  unsigned long v = 0; int any = 0, over = 0;
  for (;; i++) {
    char c = s[i]; unsigned d;
    if (c >= '0' && c <= '9') d = c - '0';
    else if (c >= 'a' && c <= 'z') d = c - 'a' + 10;
    else if (c >= 'A' && c <= 'Z') d = c - 'A' + 10;
    else break;
    if (d >= (unsigned)base) break;
    any = 1;
    if (v > (~0ul - d) / (unsigned long)base) over = 1; else v = v * (unsigned long)base + d;
  }
  if (end) *end = (char *)(any ? s + i : s);
  if (over) return ~0ul;
  return neg ? -v : v;
}
#endif
#endif
