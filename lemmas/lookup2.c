/* C10 (a): the supported set, as a lemma over the constant tables.
 * For every mnemonic-bearing row h of INSTR_TABLE and every row r the look-up can return for that
 * mnemonic (r = h, h+1, ... while the rows carry the same enumerator - exactly the rows
 * str_to_instr_key scans, see its contract), every operand format the row offers is an operand-kind
 * combination that S4 lists for the mnemonic (S4: lemmas/egen.py, written from the SDM; gen.h).
 * The format n stands for two type strings: "" when the row encodes no operand, "i" when it encodes
 * an immediate; line_to_instr must tell them apart (obligation in bound20.c).
 * Together with the exhaustive lemma on get_opd_format (type string -> format) and the contract of
 * str_to_instr_key (returned row belongs to the group of the mnemonic that compared equal) this
 * gives: a line whose operand-kind combination x86-64 does not define for its mnemonic is rejected.
 * Everything here is concrete: cbmc evaluates it, no solver involved. */
#include "vf.h"
#include <stdio.h>
#define fprintf(...) ((void)0)
#include "al_unity.h"
static const char TSTR[33][5] = {"", "i", "m", "mi", "mr", "mri", "mrr", "mv", "my", "r", "ri", "rm", "rmi", "rmr", "rr", "rri", "rrm", "rrr", "rv",
                                 "vi", "vr", "vm", "vv", "vvm", "vvmi", "vvv", "vvvi", "ym", "yy", "yym", "yymi", "yyy", "yyyi"};
static const int TFMT[33] = {n, n, m, mi, mr, mri, mrr, mv, my, r, ri, rm, rmi, rmr, rr, rri, rrm, rrr, rv,
                             vi, vr, vm, vv, vvm, vvmi, vvv, vvvi, ym, yy, yym, yymi, yyy, yyyi};
/* gen.h: S4_N, S4_MN[S4_N][15], S4_LEGAL[S4_N] (bit t: TSTR[t] is defined for the mnemonic) */
static int s4_find(const char *s) {
  for (int k = 0; k < S4_N; k++) { int j = 0; while (S4_MN[k][j] != 0 && S4_MN[k][j] == s[j]) j++; if (S4_MN[k][j] == 0 && s[j] == 0) return k; }
  return -1;
}
int g_row, g_head, g_t;
void h_table_forms(void) {
  int nrows = 0;
  for (g_head = 3; INSTR_TABLE[g_head].name != NA; g_head++) {
    nrows++;
    if (INSTR_TABLE[g_head].instr_name[0] == '\0') continue;
    int s = s4_find(INSTR_TABLE[g_head].instr_name);
    CHECK(s >= 0, "every mnemonic of the table belongs to the instruction set (S4)");
    if (s < 0) continue;
    for (g_row = g_head; INSTR_TABLE[g_row].name == INSTR_TABLE[g_head].name; g_row++)
      for (int j = 0; j < 2; j++) {
        int f = INSTR_TABLE[g_row].opd_format[j];
        if (f == NA) continue;
        for (g_t = 0; g_t < 33; g_t++) {
          if (TFMT[g_t] != f) continue;
          if (f == n && ((g_t == 0) != (INSTR_TABLE[g_row].encode_operand == NA))) continue;   /* "" only for rows without operand, "i" only for rows with an immediate */
          CHECK((S4_LEGAL[s] >> g_t) & 1, "every operand format a table row offers is an operand-kind combination x86-64 defines for the mnemonic");
        }
      }
  }
  CHECK(nrows == 315, "the table has the expected number of rows (sentinel reached)");
  REACH("end");
}
