/* Unity translation unit: nothing but the real repository sources, in dependency order.
 * REPO is passed by the driver (-DREPO_SRC=/repo/src is implicit through -I). */
#ifndef AL_UNITY_H
#define AL_UNITY_H
#include "registers.c"
#include "instructions.c"
#include "instr_parser.c"
#include "reg_parser.c"
#include "prefix.c"
#include "encoder.c"
#include "assembler.c"
#include "tokenizer.c"
#include "parser.c"
#include "assemblyline.c"
#endif
