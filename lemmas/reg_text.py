"""C09 / C10 / C16 / C07(bound): text-half lemmas."""
from vf import Lemma
import native
R = lambda f: "%s/%s__c" % (f, f)
ART = [r"^_fn\.pointer_primitives\.\d+$"]


def lemmas():
    out = []
    out.append(Lemma(name="C09.filter.loop", src="text.c", entry="h_filter", props=["C09", "C16", "C10"], enforce=[R("filter_assembly_str_fsa")],
                     loops_file="filter_loop.json", apply_loops=True, timeout=900, object_bits=10, ignore=ART, functions=["filter_assembly_str_fsa"],
                     desc="line filter under a loop contract, input line of ANY length (object size is the only limit): reads stay inside the NUL-terminated input, writes stay inside filter_str[0..99], the buffer is left NUL-terminated, the loop terminates"))
    leaf = [("get_operand_type", 300), ("get_reg_str", 600), ("find_add_mem", 600), ("find_mem_const", 600), ("get_index_reg", 900),
            ("mem_tok", 2400), ("imm_tok", 1800), ("str_to_reg", 300)]
    for f, to in leaf:
        out.append(Lemma(name="C09.safe." + f, src="safety.c", entry="h_" + f, props=["C09"], timeout=to, ghosts=["g_off"], unwindset="find_reg.0:40,strcmp.0:8,mk.0:101",
                         tier="quick" if to <= 900 else "thorough", functions=[f],
                         desc="%s on a fully symbolic 100-byte line buffer (only the terminator fixed) from a symbolic offset: no out-of-bounds access, overflow or undefined shift; copies stay NUL-terminated" % f))
    out.append(Lemma(name="C09.safe.check_for_keyword", src="safety.c", entry="h_check_for_keyword", props=["C09"], timeout=1800, ghosts=["g_off"],
                     enforce_rec=[R("check_for_keyword")], unwindset="mk.0:101", functions=["check_for_keyword"], tier="thorough",
                     desc="recursive keyword scanner against its contract (--enforce-contract-rec): touches only the line buffer and the keyword bits, buffer stays terminated"))
    out.append(Lemma(name="C09.safe.check_operand_type", src="safety.c", entry="h_check_operand_type", props=["C09"], timeout=900, ghosts=["g_off"],
                     enforce=[R("check_operand_type")], replace=[R("imm_tok"), R("get_reg_str"), R("mem_tok")], unwindset="mk.0:101", functions=["check_operand_type"],
                     desc="operand dispatcher, callees by contract"))
    out.append(Lemma(name="C09.safe.operand_tok", src="safety.c", entry="h_operand_tok", props=["C09", "C10"], timeout=900, ghosts=["g_off"],
                     enforce_rec=[R("operand_tok")], replace=[R("check_for_keyword"), R("get_operand_type"), R("check_operand_type")], unwindset="mk.0:101",
                     functions=["operand_tok"], desc="recursive operand splitter (--enforce-contract-rec): operand index stays below 4 (precondition of the recursive call), callees by contract"))
    out.append(Lemma(name="C09.safe.instr_tok", src="safety.c", entry="h_instr_tok", props=["C09"], timeout=900, ghosts=["g_off"],
                     enforce=[R("instr_tok")], replace=[R("operand_tok")], unwindset="mk.0:101", functions=["instr_tok"],
                     desc="mnemonic splitter: mnemonic copy stays inside instruction[15], callee by contract"))
    out.append(Lemma(name="C07.bound20", src="bound20.c", entry="h_bound20", props=["C07", "C09"], timeout=1800, mem_gb=24, object_bits=12, ghosts=["g_key", "g_len20", "g_t"],
                     replace=["instr_tok/instr_tok__r", R("get_opd_format"), R("str_to_instr_key"), R("str_to_reg")], unwindset="h_bound20.0:101,strncpy.0:101",
                     functions=["line_to_instr", "encode_offset", "encode_imm", "encode_operands", "get_reg", "get_rex_prefix", "check_registers", "assemble_asm"],
                     desc="real line_to_instr + assemble_asm on ANY tokenizer output (instr_tok by contract, look-ups by contract): an accepted line never emits more than the 20 reserve bytes and always has a valid table row; all safety checks on the encoder for arbitrary records"))
    for k in range(6):
        out.append(Lemma(name="C10.fmt_lookup.first%d" % k, src="lookup.c", entry="h_fmt_lookup", props=["C10"], defs={"FIRST": str(k)}, timeout=1800, unwind=60,
                         unwindset="h_fmt_lookup.0:8,h_fmt_lookup.1:8,h_fmt_lookup.2:8", safety=False, object_bits=12, functions=["get_opd_format"],
                         ghosts=["g_a", "g_b", "g_c", "g_d"], tier="quick" if k in (0, 4) else "thorough",
                         desc="operand-format look-up, exhaustive over every operand-type string with first letter #%d: the format returned names exactly the string, every other string gives opd_error" % k))
    return out
