/* Contracts of the per-line functions between the line loop and the tokenizer/encoder:
 * str_to_instr (one line of text -> record), line_to_instr (filtered text -> record).
 * Each contract text exists once, as a macro; it is instantiated in an enforcement form
 * (is_fresh: the real body is proved against it) and in a usage form (r_ok/rw_ok: callers are
 * proved against it). */
#ifndef LINE_CONTRACTS_H
#define LINE_CONTRACTS_H
#ifndef NATIVE_REPLAY
#include "rec_inv.h"
#include "text_contracts.h"
#include "tok_contracts.h"
#define IS_EOL(c) ((c) == '\n' || (c) == '\r')
#define IS_END(c) (IS_EOL(c) || (c) == '\0')

/* what str_to_instr promises about the text position, for the line starting at s:
 * *read_len ends exactly behind the first line end (LF or CR) or at the terminating NUL, and no
 * line end lies inside the consumed part - so the next iteration starts at the next line */
#define STR_TO_INSTR_POST_RANGE(I, s, read_len, remaining)                                             \
  __CPROVER_ensures(__CPROVER_return_value == EXIT_SUCCESS || __CPROVER_return_value == EXIT_FAILURE)    \
  __CPROVER_ensures(__CPROVER_return_value == EXIT_SUCCESS ==> (1 <= *(read_len) && *(read_len) <= (remaining))) \
  __CPROVER_ensures(__CPROVER_return_value == EXIT_SUCCESS ==> ((I)->key == SKIP || rec_inv(I)))
#define STR_TO_INSTR_POST(I, s, read_len, remaining)                                                   \
  STR_TO_INSTR_POST_RANGE(I, s, read_len, remaining)                                                   \
  __CPROVER_ensures(__CPROVER_return_value == EXIT_SUCCESS && 0 <= g_q && g_q < *(read_len) - 1 ==> !IS_END(g_qc)) \
  __CPROVER_ensures(__CPROVER_return_value == EXIT_SUCCESS ==> (IS_EOL((s)[*(read_len) - 1]) || (s)[*(read_len)] == '\0'))

/* filtered text -> record.  The text is the 100-byte line buffer, NUL-terminated. */
#define LINE_TO_INSTR_CONTRACT(VALID_I, VALID_F)                                                        \
  __CPROVER_requires(VALID_I(instr_data, sizeof(struct instr)) && REC_FRESH(instr_data))   /* zeroed record (assemble_all), option byte set */ \
  __CPROVER_requires(VALID_F(filtered_asm_str, FILTERED_STR_LEN) && filtered_asm_str[FILTERED_STR_LEN - 1] == '\0') \
  __CPROVER_requires(filtered_asm_str[0] >= 'A' && filtered_asm_str[0] <= 'z')   /* the filter starts a non-empty line at its first letter-range character */ \
  __CPROVER_assigns(__CPROVER_object_whole(instr_data), __CPROVER_object_whole(filtered_asm_str)) \
  __CPROVER_ensures(__CPROVER_return_value == EXIT_SUCCESS || __CPROVER_return_value == EXIT_FAILURE)    \
  __CPROVER_ensures(__CPROVER_return_value == EXIT_SUCCESS ==> rec_inv(instr_data))
int line_to_instr__c(struct instr *instr_data, char *filtered_asm_str) LINE_TO_INSTR_CONTRACT(__CPROVER_rw_ok, __CPROVER_rw_ok);
int line_to_instr__e(struct instr *instr_data, char *filtered_asm_str) LINE_TO_INSTR_CONTRACT(__CPROVER_is_fresh, __CPROVER_is_fresh)
  __CPROVER_requires(g_buf == filtered_asm_str);

/* one line of the program text.  Enforcement form (the line starts at the beginning of a fresh
 * NUL-terminated object of symbolic length g_len); the usage form inside the line loop (pointer into
 * the program text) is str_to_instr__c in loop_contracts.h, built from the same postcondition macro. */
#ifdef STI_FIXED
#define STI_OBJ (LINE_MAX_OBJ + 1)      /* bounded variant: object of fixed size, the line (up to its NUL at g_len) lies inside */
#else
#define STI_OBJ (g_len + 1)
#endif
int str_to_instr__e(struct instr *instr_data, const char unfiltered_str[], int *read_len)
  __CPROVER_requires(__CPROVER_is_fresh(instr_data, sizeof(struct instr)) && REC_FRESH(instr_data) && __CPROVER_is_fresh(read_len, sizeof(int)))
  __CPROVER_requires(g_len >= 1 && g_len <= LINE_MAX_OBJ && __CPROVER_is_fresh(unfiltered_str, STI_OBJ) && g_in == unfiltered_str)
  __CPROVER_requires(unfiltered_str[g_len] == '\0' && unfiltered_str[0] != '\0')
  __CPROVER_requires(g_bad >= 0 && g_bad <= g_len && g_q >= 0 && g_q <= g_len && g_qc == unfiltered_str[g_q])
  __CPROVER_assigns(__CPROVER_object_whole(instr_data), *read_len)
  STR_TO_INSTR_POST(instr_data, unfiltered_str, read_len, g_len);
/* the same function, memory-safety run: CBMC's pointer/bounds/overflow checks on, postconditions
 * reduced to the return values and the frame (the position clauses are proved in the run above) */
int str_to_instr__es(struct instr *instr_data, const char unfiltered_str[], int *read_len)
  __CPROVER_requires(__CPROVER_is_fresh(instr_data, sizeof(struct instr)) && __CPROVER_is_fresh(read_len, sizeof(int)))
  __CPROVER_requires(g_len >= 1 && g_len <= LINE_MAX_OBJ && __CPROVER_is_fresh(unfiltered_str, g_len + 1) && g_in == unfiltered_str)
  __CPROVER_requires(unfiltered_str[g_len] == '\0' && unfiltered_str[0] != '\0')
  __CPROVER_assigns(__CPROVER_object_whole(instr_data), *read_len)
  __CPROVER_ensures(__CPROVER_return_value == EXIT_SUCCESS || __CPROVER_return_value == EXIT_FAILURE)
  __CPROVER_ensures(__CPROVER_return_value == EXIT_SUCCESS ==> (1 <= *read_len && *read_len <= g_len));
/* filter as seen by the safety run: frame, return range, termination of the buffer, first character */
int filter_assembly_str_fsa__us(const char unfiltered_str[], char filter_str[])
  __CPROVER_requires(g_len >= 0 && g_len <= LINE_MAX_OBJ && __CPROVER_r_ok(unfiltered_str, g_len + 1) && g_in == unfiltered_str && unfiltered_str[g_len] == '\0')
  __CPROVER_requires(__CPROVER_rw_ok(filter_str, FILTERED_STR_LEN) && filter_str[FILTERED_STR_LEN - 1] == '\0' && filter_str[0] == '\0')
  __CPROVER_assigns(__CPROVER_object_whole(filter_str))
  __CPROVER_ensures(__CPROVER_return_value == ASM_ERROR || (__CPROVER_return_value >= 0 && __CPROVER_return_value <= g_len))
  __CPROVER_ensures(filter_str[FILTERED_STR_LEN - 1] == '\0')
  FILTER_POST_C;
/* assumed contracts of strstr / strchr for callers whose claim does not depend on where the match is:
 * NULL or a pointer into the haystack (ISO C 7.24.5.7 / 7.24.5.2) */
char *strstr__any(const char *h, const char *n)
  __CPROVER_requires(__CPROVER_r_ok(h, 1) && __CPROVER_r_ok(n, 1))
  __CPROVER_assigns()
  __CPROVER_ensures(__CPROVER_return_value == NULL || __CPROVER_same_object(__CPROVER_return_value, h));
char *strchr__any(const char *s, int c)
  __CPROVER_requires(__CPROVER_r_ok(s, 1))
  __CPROVER_assigns()
  __CPROVER_ensures(__CPROVER_return_value == NULL || __CPROVER_same_object(__CPROVER_return_value, s));
#endif
#endif
