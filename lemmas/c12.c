/* C12 harnesses: each entry calls one real setter on an arbitrary instance with an arbitrary
 * int-valued option; goto-instrument --dfcc enforces the contract of contracts/c12_contracts.h. */
#include "vf.h"
#include "al_unity.h"
#include "c12_contracts.h"

#define H(fn)                                                   \
  void h_##fn(void) {                                           \
    assemblyline_t al; enum asm_opt o;                          \
    fn(al, o);                                                  \
    REACH("after " #fn);                                        \
  }
H(asm_mov_imm)
H(asm_sib_index_base_swap)
H(asm_sib_no_base)
H(asm_sib)
H(asm_set_all)
