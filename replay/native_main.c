/* Native replay entry: the SAME harness file that cbmc checked, compiled with gcc against the
 * real code, ghosts given as name=value arguments. */
#include HARNESS_FILE
int vf_argc; char **vf_argv; int vf_failed;
int main(int argc, char **argv) {
  vf_argc = argc; vf_argv = argv;
  setvbuf(stdout, NULL, _IONBF, 0);
  ENTRY();
  printf(vf_failed ? "REPLAY-RESULT violated\n" : "REPLAY-RESULT holds\n");
  return vf_failed ? 1 : 0;
}
