"""E-lemmas (C01-C05, C11): registry of generated shapes + native rendering of counterexamples."""
import os, re
from vf import Lemma
import native, egen

US = "s1_decode.2:260,filter_assembly_str_fsa.0:110"


def render(shape):
    def fn(l, g):
        """ghost values -> the real line text"""
        def G(name, default=0):
            return g.get(name, default)
        txt = shape.line()
        try:
            def regsub(m):
                k = "abcd".index(m.group(2))
                return egen.reg_name(G("g_kind[%d]" % k), G("g_num[%d]" % k))
            txt = re.sub(r"\b([rxym])([a-d])\b", regsub, txt)
            if "rp" in txt:
                txt = re.sub(r"\brp\b", egen.reg_name(G("g_bkind"), G("g_bnum")), txt)
            if "rq" in txt:
                txt = re.sub(r"\brq\b", egen.reg_name(G("g_ikind"), G("g_inum")), txt)
        except (KeyError, IndexError, TypeError):
            return None
        d, i = G("g_dmag") & (2**64 - 1), G("g_imag") & (2**64 - 1)
        txt = txt.replace("0x1d", "0x%x" % d)
        txt = re.sub(r"\b19\b", "%d" % d, txt)
        txt = txt.replace("0x000000000000002e", "0x%016x" % i).replace("0x2e", "0x%x" % i)
        txt = re.sub(r"\b46\b", "%d" % i, txt)
        return {"__env__VF_LINE": txt}
    return fn


def _validated():
    """E-lemmas of the non-quick tiers that were discharged on this tree in a completed run (lemmas/validated_e.txt, one
    name per line); only those are in the registered thorough tier, the rest is the 'extended' tier (DESIGN 10)"""
    try:
        return {l.strip() for l in open(os.path.join(os.path.dirname(os.path.abspath(__file__)), "validated_e.txt")) if l.strip()}
    except OSError:
        return set()


VALIDATED = _validated()


def mk(shape, extra_defs=None, suffix=""):
    props = list(shape.props)
    if shape.tier != "quick":
        shape.tier = "thorough" if ("%s.E.%s%s" % (props[0], shape.name(), suffix)) in VALIDATED else "extended"
    ghosts = ["g_opt", "g_kind", "g_num", "g_bkind", "g_bnum", "g_ikind", "g_inum", "g_dmag", "g_dneg", "g_imag", "g_ineg", "g_rc", "g_n"]
    return Lemma(name="%s.E.%s%s" % (props[0], shape.name(), suffix), src="elemma.c", entry="h_E", props=props, tier=shape.tier,
                 gen_h=shape.gen_h() + (extra_defs or ""), replace=["str_to_reg/str_to_reg__g"], unwindset=US, timeout=900, mem_gb=10,
                 ghosts=ghosts, replay=native.harness_replay(render=render(shape)),
                 functions=["str_to_instr", "filter_assembly_str_fsa", "line_to_instr", "instr_tok", "operand_tok", "check_for_keyword",
                            "get_operand_type", "get_reg_str", "mem_tok", "imm_tok", "get_opd_format", "str_to_instr_key",
                            "encode_offset", "encode_imm", "encode_operands", "get_reg", "get_rex_prefix", "assemble_asm"],
                 desc="E-lemma '%s': real str_to_instr + assemble_asm, registers/displacement/immediate/option bits symbolic, S1 decode must give back what was written" % shape.line())


def lemmas():
    out = []
    for s in egen.shapes():
        out.append(mk(s))
    for s in egen.branch_shapes():
        b = s.branch
        rule = ""
        if b["must_accept"]:
            rule = "#define E_MUST_ACCEPT 1\n#define E_MUST_REJECT 0\n"
        else:
            # short requested or only rel8 exists: out-of-range d must be rejected; in range may go either way
            # (no keyword on a rel8-only branch: in-range d must be accepted)
            acc = "0" if b["short"] else b["inr8"]
            rule = "#define E_MUST_ACCEPT (%s)\n#define E_MUST_REJECT (!%s)\n#define E_MAY_ALWAYS_REJECT 1\n" % (acc, b["inr8"])
        out.append(mk(s, rule))
    return out
