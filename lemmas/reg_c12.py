from vf import Lemma



def lemmas():
    R = lambda f: "%s/%s__c" % (f, f)
    leaf = ["asm_mov_imm", "asm_sib_index_base_swap", "asm_sib_no_base"]
    out = []
    for f in leaf:
        out.append(Lemma(name="C12." + f, src="c12.c", entry="h_" + f, props=["C12", "C15", "C18"], enforce=[R(f)],
                         functions=[f], timeout=120,
                         desc="%s: new option byte == documented overwrite of its dimension, every other value a no-op, assigns only al->assembly_opt" % f))
    out.append(Lemma(name="C12.asm_sib", src="c12.c", entry="h_asm_sib", props=["C12", "C15", "C18"], enforce=[R("asm_sib")],
                     replace=[R("asm_sib_index_base_swap"), R("asm_sib_no_base")], functions=["asm_sib"], timeout=120,
                     desc="asm_sib == swap then no-base for NASM/STRICT, no-op otherwise (callees by contract)"))
    out.append(Lemma(name="C12.asm_set_all", src="c12.c", entry="h_asm_set_all", props=["C12", "C15", "C18"], enforce=[R("asm_set_all")],
                     replace=[R(f) for f in leaf], functions=["asm_set_all"], timeout=120,
                     desc="asm_set_all == man-page expansion (swap, no-base, mov-imm for NASM/STRICT; mov-imm only for SMART)"))
    return out
