from vf import Lemma
import native
R = lambda f: "%s/%s__c" % (f, f)
US = "debug_without_chunksize.0:22,assemble_with_chunk_fitting.0:2"
CALLEES = [R("assemble_asm"), R("check_len_or_resize")]

POW2_Q = [2, 4, 16, 64, 4096, 1 << 30]
ODD_Q = [3, 5, 12, 13, 15, 21, 100]
POW2_T = [8, 32, 128, 256, 512, 1024, 65536, 1 << 20, 1 << 31]
ODD_T = [6, 7, 9, 10, 11, 14, 17, 19, 20, 24, 25, 31, 33, 63, 127, 255, 1000, 4095, 65535, 1000003]


LINES = {1: "nop", 2: "nop2", 3: "nop3", 4: "nop4", 5: "nop5", 6: "nop6", 7: "nop7", 8: "nop8", 9: "nop9", 10: "mov rax, 0x1122334455667788", 11: "nop11",
         12: "mov qword [rax+rcx*8+0x12345678], 0x12345678", 13: "mov qword [r12d+r13d*8+0x12345678], 0x12345678", 14: "mov word [r12d+r13d*8+0x12345678], 0x1234"}


def step_sweep(kind, c):
    """Native confirmation for a failed step obligation: the obligations of the step contracts are
    evaluated on the REAL library for every caller-buffer length n <= 48+c, every start position p <= n
    and every instruction length 1..14, in the mode of the lemma; the first failing history is the replay."""
    def fn(l, failure):
        import re
        c_ = c if c >= 2 else 16
        script, cases = [], []
        for n in list(range(0, 40)) + [c_ + k for k in range(18, 30)]:
            for p in range(0, n + 1):
                if p > 64 + c_:
                    continue
                for L, line in LINES.items():
                    script += ["create %d" % n] + (["chunk %d" % c_] if kind == "fit" else []) + ["offset %d" % p,
                               ("count %d %s" % (c_, line)) if kind == "cnt" else "asm " + line, "guards"]
                    cases.append((n, p, L, line))
        rc, out = native.run_drv("\n".join(script) + "\n", timeout=300)
        if rc is None:
            return {"reproduced": False, "error": out}
        recs = re.findall(r"(?:asm rc=(\d+) start=\d+ offset=(-?\d+)|count rc=(\d+) offset=(-?\d+) count=(-?\d+))\n(GUARD-\S+)", out)
        bad = None
        for (n, p, L, line), r in zip(cases, recs):
            rcv = int(r[0] or r[2]); off = int(r[1] or r[3]); guard = r[5]
            room = p + 20 <= n
            why = None
            if guard != "GUARD-OK":
                why = "bytes outside the buffer were modified"
            elif rcv == 0 and not room:
                why = "EXIT_SUCCESS although fewer than 20 bytes were left"
            elif rcv == 0 and off > n:
                why = "offset beyond the buffer"
            elif rcv == 0 and kind == "cnt" and int(r[4]) != (1 if p // c_ != (p + L - 1) // c_ else 0):
                why = "count %s, expected %d" % (r[4], 1 if p // c_ != (p + L - 1) // c_ else 0)
            elif rcv == 0 and kind == "fit" and L < c_ and (off - L) // c_ != (off - 1) // c_:
                why = "instruction of %d bytes at %d straddles a %d-byte boundary" % (L, off - L, c_)
            elif rcv == 0 and kind == "fit" and p // c_ == (p + L - 1) // c_ and off != p + L:
                why = "padding although the instruction fits its chunk"
            elif rcv == 0 and kind != "fit" and off != p + L:
                why = "offset advanced by %d, instruction has %d bytes" % (off - p, L)
            elif rcv != 0 and room and kind != "fit":
                why = "EXIT_FAILURE although 20 bytes were left"
            if why:
                bad = (n, p, L, line, why)
                break
        if not bad:
            return {"reproduced": False, "note": "native sweep over %d histories found no failing one" % len(cases)}
        n, p, L, line, why = bad
        hist = "create %d\\n%soffset %d\\n%s\\nguards\\nstate\\n" % (n, ("chunk %d\\n" % c_) if kind == "fit" else "", p, ("count %d %s" % (c_, line)) if kind == "cnt" else "asm " + line)
        return {"reproduced": True, "cmd": "printf '%s' | %s" % (hist, native.drv()[1]), "output": why,
                "fail_regex": "GUARD-CORRUPT|SIGNAL|.", "text": {"history": hist.replace("\\n", " | "), "violated": why}}
    return fn


def chunk_lemmas(kind, props):
    out = []
    fn = {"fit": "assemble_with_chunk_fitting", "cnt": "assemble_counting_chunks"}[kind]
    entry = {"fit": "h_fitting", "cnt": "h_counting"}[kind]
    rep = CALLEES + ([R("nop_padding")] if kind == "fit" else [])
    what = {"fit": "fitting step: instruction shorter than c ends up inside one c-aligned chunk, padding only when it would cross, padding never beyond the next boundary, room check before every write",
            "cnt": "counting step: counter += [floor(p/c) != floor((p+L-1)/c)], same advance as the plain step"}[kind]
    def mk(c, tier, pmax):
        defs = {"CHUNK": "%du" % c}
        b = "chunk size enumerated (c=%d)" % c
        if pmax:
            defs["PMAX"] = "%du" % pmax
            b += ", position < %d" % pmax
        return Lemma(name="%s.%s.c%d%s" % (props[0], kind, c, ".p%d" % pmax if pmax else ""), src="steps.c", entry=entry, props=props, tier=tier,
                     defs=defs, enforce=[R(fn)], replace=rep, unwindset=US, functions=[fn], bounded=b, slice=True, replay=step_sweep(kind, c),
                     timeout=900 if not pmax else 300,
                     desc=what + "; position and instruction length (1..20) symbolic, buffer length any int")
    for c in POW2_Q:
        out.append(mk(c, "quick", 0))
    for c in ODD_Q:
        out.append(mk(c, "quick", 1 << 16))
    for c in POW2_T:
        if c < (1 << 31) or kind == "fit":
            out.append(mk(c, "thorough", 0))
    for c in ODD_Q + ODD_T:
        out.append(mk(c, "thorough", 0))
    return out


def lemmas():
    out = []
    out.append(Lemma(name="C07.check_len_or_resize", src="steps.c", entry="h_check_len", props=["C07"], enforce=[R("check_len_or_resize")],
                     functions=["check_len_or_resize"], timeout=120,
                     desc="room check on a caller buffer: success <=> position + 20 <= buffer_len over widened integers, for every int length and every non-negative int position; assigns nothing"))
    out.append(Lemma(name="C07.assemble", src="steps.c", entry="h_assemble", props=["C07", "C06"], enforce=[R("assemble")], replace=CALLEES,
                     unwindset=US, functions=["assemble"], timeout=300, replay=step_sweep("asm", 0),
                     desc="plain step: writes only [buffer+p, buffer+p+20) and only when p+20 <= n; fewer than 20 bytes left => EXIT_FAILURE, position and buffer untouched; position advances by the emitter's length; buffer is_fresh of ANY int length"))
    # the same three steps with the room check INLINED (not by contract): independent of check_len_or_resize's signature and contract
    out.append(Lemma(name="C07.assemble.inl", src="steps.c", entry="h_assemble", props=["C07", "C06"], enforce=[R("assemble")], replace=[R("assemble_asm")],
                     unwindset=US, functions=["assemble", "check_len_or_resize"], timeout=300, replay=step_sweep("asm", 0),
                     desc="plain step with the real room check inlined: same contract (writes only [buffer+p, +20) and only when p+20 <= n, else EXIT_FAILURE and nothing written)"))
    out.append(Lemma(name="C07.cnt.inl.c16", src="steps.c", entry="h_counting", props=["C07", "C14"], defs={"CHUNK": "16u"}, enforce=[R("assemble_counting_chunks")], replace=[R("assemble_asm")],
                     unwindset=US, functions=["assemble_counting_chunks", "check_len_or_resize"], timeout=600, bounded="chunk size enumerated (c=16)", slice=True, replay=step_sweep("cnt", 16),
                     desc="counting step with the real room check inlined (chunk 16)"))
    out.append(Lemma(name="C07.fit.inl.c16", src="steps.c", entry="h_fitting", props=["C07", "C13"], defs={"CHUNK": "16u"}, enforce=[R("assemble_with_chunk_fitting")], replace=[R("assemble_asm"), R("nop_padding")],
                     unwindset=US, functions=["assemble_with_chunk_fitting", "check_len_or_resize"], timeout=600, bounded="chunk size enumerated (c=16)", slice=True, replay=step_sweep("fit", 16),
                     desc="fitting step with the real room check inlined (chunk 16)"))
    # loop-level step contracts (free chunk size) on the real bodies
    for f, e, rep, to, cs in (("assemble", "h_assemble_l", CALLEES, 300, [0]), ("assemble_counting_chunks", "h_counting_l", CALLEES, 1200, [0]),
                              ("assemble_with_chunk_fitting", "h_fitting_l", CALLEES + [R("nop_padding")], 900, [16, 13, 2, 4096, 100])):
      for c in cs:
        out.append(Lemma(name="C06.step_l." + f + (".c%d" % c if c else ""), src="steps.c", entry=e, props=["C06", "C07", "C14"], enforce=["%s/%s__le" % (f, f)], replace=rep, unwindset=US, functions=[f], timeout=to,
                         defs={"CHUNK": "%du" % c} if c else {}, bounded="chunk size enumerated (c=%d)" % c if c else None, tier="quick" if c in (0, 16, 13) else "thorough", slice=bool(c),
                         desc="loop-level contract of %s (the form the line loop of assemble_all is proved against; chunk size free, buffer any int length): frame [buffer+p, ..) only with room, position advances by 1..20 inside the buffer (fitting: never backwards), failure without room, counter changes by 0 or 1" % f))
    S1US = "s1_decode.0:5,s1_decode.1:6,s1_decode.2:260,s1_decode.3:9,s1_all_nops.0:21,one.0:25,one.1:25"
    for k in range(1, 20):
        out.append(Lemma(name="C13.nop_padding.k%d" % k, src="nops.c", entry="h_nop_padding", props=["C13", "C09"], defs={"NOP_K": str(k)},
                         unwind=30, unwindset=S1US, functions=["nop_padding"], timeout=120, ghosts=["g_k"],
                         replay=native.harness_replay(fixed={"g_k": k}),
                         desc="nop_padding(k=%d): writes exactly k bytes that S1 decodes as NOPs, returns k, nothing behind; k ranges over every gap the fitting step can request (1..19)" % k))
    out += chunk_lemmas("cnt", ["C14", "C07"])
    out += chunk_lemmas("fit", ["C13", "C07"])
    return out
