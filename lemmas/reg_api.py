from vf import Lemma
import native, re
R = lambda f: "%s/%s__c" % (f, f)
L = lambda f: "%s/%s__l" % (f, f)
ART = [r"^_fn\.pointer_primitives\.\d+$"]


def drv_replay(script, fail_rx):
    """native replay by a canonical API history: the obligation is a clause of the sequence
    invariant, so the same clause is evaluated on the real library for a fixed set of histories"""
    def fn(l, failure):
        rc, out = native.run_drv(script)
        if rc is None:
            return {"reproduced": False, "error": out}
        if rc < 0:
            out += "\nSIGNAL %d" % -rc
        bad = re.search(fail_rx, out, re.M) is not None
        return {"reproduced": bad, "cmd": "printf '%s' | %s" % (script.replace("\n", "\\n"), native.drv()[1]),
                "output": out[-1500:], "fail_regex": fail_rx}
    return fn


HIST = ("create 64\nasm bogus\nstate\nasm nop\nstate\nguards\ncount 16 nop\nstate\nasm nop\nstate\nchunk 8\ncount 4 nop\nstate\n"
        "offset 60\nasm nop\nstate\nguards\n")
HIST_RX = r"offset=-\d|GUARD-CORRUPT|SIGNAL|state offset=\d+ mode=0|asm rc=1 start=[0-3] "


def lemmas():
    out = []
    for tag, dfs in (("null", {"DEST_NULL": "1"}), ("dest", {})):
        out.append(Lemma(name="C06.assemble_all.loop." + tag, src="loop.c", entry="h_assemble_all", props=["C06", "C07", "C14", "C10", "C15"], defs=dfs,
                         enforce=[R("assemble_all")],
                         replace=[R("str_to_instr"), L("assemble"), L("assemble_counting_chunks"), L("assemble_with_chunk_fitting"), R("debug_with_chunksize")],
                         loops_file="assemble_all_loop_%s.json" % tag, apply_loops=True, timeout=900, object_bits=10, ignore=ART,
                         functions=["assemble_all"],
                         desc="line loop of assemble_all under a loop contract (any text length <= 10^6, any int buffer length, dest %s): position stays in [offset, buffer_len], writes only object_from(buffer+offset), the instance is not written, *dest == number of crossing steps of this call, error return before any step of a failing line, terminates (decreases)" % ("NULL" if tag == "null" else "non-NULL")))
    api = [("asm_assemble_str", "h_asm_assemble_str", [R("assemble_all")], ["C07", "C15", "C06"],
            "asm_assemble_str: sequence invariant in/out (0 <= offset <= buffer_len also after a failure), configuration fields unchanged, writes only from buffer+offset"),
           ("asm_assemble_string_counting_chunks", "h_counting", [R("assemble_all")], ["C14", "C15", "C07"],
            "counting entry point: *dest == crossing steps of this call whatever it held before, c<2 => plain assembly and 0, mode and chunk size restored, sequence invariant in/out"),
           ("asm_set_chunk_size", "h_set_chunk_size", [], ["C13", "C15", "C07"], "chunk sizes below 2 disable fitting, others enable it with exactly that size; nothing else changes"),
           ("asm_set_offset", "h_set_offset", [], ["C15", "C07"], "asm_set_offset sets the offset and nothing else"),
           ("asm_get_offset", "h_get_offset", [], ["C15"], "asm_get_offset is a pure read"),
           ("asm_get_code", "h_get_code", [], ["C15"], "asm_get_code is a pure read")]
    for f, e, rep, props, desc in api:
        out.append(Lemma(name="%s.api.%s" % (props[0], f), src="api.c", entry=e, props=props, enforce=[R(f)], replace=rep, timeout=600, object_bits=10,
                         functions=[f], desc=desc, replay=drv_replay(HIST, HIST_RX) if rep else None))
    for lo in range(0, 320, 10):
        out.append(Lemma(name="C06.emit.two_run.rows%d" % lo, src="emit.c", entry="h_two_run", props=["C06", "C13"], tier="thorough",
                         defs={"KEY_LO": str(lo), "KEY_HI": str(min(lo + 9, 318))}, unwind=42, timeout=1500, functions=["assemble_asm", "assemble_instr", "assemble_VEX", "assemble_mem_disp", "assemble_imm"],
                         ghosts=["g_key"],
                         desc="assemble_asm on an arbitrary record of table rows %d..%d: same length and bytes at another address and over other prior contents, same again on the processed record, nothing behind the returned length" % (lo, min(lo + 9, 318))))
    return out
