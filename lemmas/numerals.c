/* T4 (C03, C11, C16): the real imm_tok on symbolic numerals, with the reference model of strtoul
 * (models/libc.h, compared with glibc natively at setup).
 *   h_imm_hex: [-]0x<1..17 hex digits>, every digit symbolic: the stored constant is the numeral's
 *              value (two's complement for '-'); in SMART mode the line is marked for nasm-style
 *              narrowing exactly when fewer than 16 digits are written; other modes: options untouched
 *   h_imm_dec: [-]<1..19 decimal digits> (leading zeros included): value; SMART marks for narrowing */
#include "vf.h"
#include <stdio.h>
#define fprintf(...) ((void)0)
#include "al_unity.h"
#define LIBC_MODEL_STRTOUL 1
#include "libc.h"
static char T[FILTERED_STR_LEN];
int g_nd, g_neg; unsigned g_opt; unsigned long g_val;
static int hexv(char c) { return c >= '0' && c <= '9' ? c - '0' : c - 'a' + 10; }
void h_imm_hex(void) {
  int p = 0; GHOST_IN(int, g_nd); GHOST_IN(int, g_neg); GHOST_IN(unsigned, g_opt);
  ASSUME(g_nd >= 1 && g_nd <= 17 && (g_neg == 0 || g_neg == 1) && g_opt < 16 && (g_opt & 3) != 3);   /* line_to_instr clears the NASM bit of a SMART instance before tokenising */
  if (g_neg) T[p++] = '-';
  T[p++] = '0'; T[p++] = 'x';
  unsigned long v = 0; int over = 0;
  for (int i = 0; i < 17; i++) if (i < g_nd) { char c; ASSUME((c >= '0' && c <= '9') || (c >= 'a' && c <= 'f')); T[p++] = c; if (v >> 60) over = 1; v = (v << 4) | (unsigned long)hexv(c); }
  T[p] = 0;
  g_val = v;
  struct instr I = {0}; I.assembly_opt = (uint8_t)g_opt;
  imm_tok(&I, T);
  CHECK(I.imm, "immediate flag set");
  if (!over) CHECK(I.cons == (g_neg ? -v : v), "hexadecimal literal: the stored constant is the value written (two's complement when negated)");
  if (g_opt & SMART_MOV_IMM) {
    if (!g_neg) CHECK(((I.assembly_opt & NASM_MOV_IMM) != 0) == (g_nd < 16), "SMART: marked for narrowing exactly when fewer than 16 hex digits are written");
    CHECK((I.assembly_opt & ~NASM_MOV_IMM) == (g_opt & ~NASM_MOV_IMM), "SMART: no other option bit changes");
  } else CHECK(I.assembly_opt == g_opt, "NASM / STRICT mov-immediate mode: the spelling does not touch the options");
  REACH("end");
}
#ifndef DEC_MAX
#define DEC_MAX 19
#endif
void h_imm_dec(void) {
  int p = 0; GHOST_IN(int, g_nd); GHOST_IN(int, g_neg); GHOST_IN(unsigned, g_opt);
  ASSUME(g_nd >= 1 && g_nd <= DEC_MAX && (g_neg == 0 || g_neg == 1) && g_opt < 16 && (g_opt & 3) != 3);
  if (g_neg) T[p++] = '-';
  unsigned long v = 0;
  for (int i = 0; i < DEC_MAX; i++) if (i < g_nd) { char c; ASSUME(c >= '0' && c <= '9'); T[p++] = c; v = v * 10 + (unsigned long)(c - '0'); }
  T[p] = 0;
  g_val = v;
  struct instr I = {0}; I.assembly_opt = (uint8_t)g_opt;
  imm_tok(&I, T);
  CHECK(I.imm, "immediate flag set");
  CHECK(I.cons == (g_neg ? -v : v), "decimal literal (leading zeros allowed): the stored constant is the value written");
  if (g_opt & SMART_MOV_IMM) CHECK((I.assembly_opt | NASM_MOV_IMM) == (g_opt | NASM_MOV_IMM) && (I.assembly_opt & NASM_MOV_IMM), "SMART: a decimal literal is marked for narrowing");
  else CHECK(I.assembly_opt == g_opt, "NASM / STRICT mov-immediate mode: the spelling does not touch the options");
  REACH("end");
}

/* T3 (C02, C16): displacement / absolute-address numerals through the real mem_tok.  MPRE is the
 * concrete text in front of the numeral (e.g. "[rax+", "[rax+rcx*4-", "[", "[-"), the digits are
 * symbolic, MRADIX 10 or 16 ("0x" is added for 16).  The value that reaches the record is the value
 * written: the radix is recognised from the spelling, leading zeros do not matter. */
#ifndef MPRE
#define MPRE "[rax+"
#define MRADIX 10
#define MABS 0
#define MNEG 0
#endif
#define MMAXD (MRADIX == 16 ? 8 : 10)
void h_mem_num(void) {
  static const char pre[] = MPRE;
  int p = 0; GHOST_IN(int, g_nd);
  ASSUME(g_nd >= 1 && g_nd <= MMAXD);
  for (; pre[p]; p++) T[p] = pre[p];
  if (MRADIX == 16) { T[p++] = '0'; T[p++] = 'x'; }
  unsigned long v = 0;
  for (int i = 0; i < MMAXD; i++) if (i < g_nd) { char c;
    if (MRADIX == 16) { ASSUME((c >= '0' && c <= '9') || (c >= 'a' && c <= 'f')); v = (v << 4) | (unsigned long)hexv(c); }
    else { ASSUME(c >= '0' && c <= '9'); v = v * 10 + (unsigned long)(c - '0'); }
    T[p++] = c; }
  T[p++] = ']'; T[p] = 0;
  g_val = v;
  ASSUME(v <= (MNEG ? 0x80000000ul : 0x7ffffffful));      /* a displacement or absolute address is a signed 32-bit quantity */
  struct instr I = {0}; I.mod_disp = MOD24;
  int rc = mem_tok(&I, T, 1);
  CHECK(rc == EXIT_SUCCESS, "the operand is accepted");
  if (MABS) CHECK(I.mem_value && I.mem_const == (uint32_t)(MNEG ? -v : v), "absolute address: the constant is the value written in the radix written");
  else CHECK(!I.mem_value && I.mem_offset == (MNEG ? process_neg_disp((uint32_t)v) : (uint32_t)v), "displacement: the offset is the value written in the radix written");
  REACH("end");
}
