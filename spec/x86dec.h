/* S1 - specification decoder for the x86-64 subset AssemblyLine supports.
 * Written from the Intel SDM vol. 2 (opcode maps, 2.1 instruction format, 2.2.1 REX, 2.3 VEX),
 * NOT from /repo's tables.  Pure C over <= 15 bytes; accepts every valid encoding of the
 * subset (either direction bit, redundant REX, 2- or 3-byte VEX, disp8 or disp32), so that
 * harmless encoding choices never raise an alarm.  Trusted; cross-checked against objdump
 * by replay/s1_selftest on every setup.
 * Must be included BEFORE any /repo header (common.h defines one-letter macros). */
#ifndef S1_X86DEC_H
#define S1_X86DEC_H
#include <stdint.h>

/* operand kinds */
enum { S1_K_NONE = 0, S1_K_R8, S1_K_R8H, S1_K_R16, S1_K_R32, S1_K_R64, S1_K_MM, S1_K_XMM, S1_K_YMM,
       S1_K_MEM, S1_K_IMM, S1_K_REL, S1_K_ONE /* literal 1 of the shift-by-one forms */ };

/* operations; aliases of one architectural operation share one id */
enum {
  S1_OP_INVALID = 0,
  S1_OP_ADD, S1_OP_OR, S1_OP_ADC, S1_OP_SBB, S1_OP_AND, S1_OP_SUB, S1_OP_XOR, S1_OP_CMP, /* order = /digit */
  S1_OP_TEST, S1_OP_MOV, S1_OP_LEA, S1_OP_XCHG, S1_OP_NOP, S1_OP_INC, S1_OP_DEC, S1_OP_NOT, S1_OP_NEG,
  S1_OP_MUL, S1_OP_IMUL, S1_OP_DIV, S1_OP_IDIV, S1_OP_PUSH, S1_OP_POP, S1_OP_CALL, S1_OP_CALLF, S1_OP_JMP, S1_OP_JMPF,
  S1_OP_RET, S1_OP_JRCXZ, S1_OP_JECXZ,
  S1_OP_ROL, S1_OP_ROR, S1_OP_RCL, S1_OP_RCR, S1_OP_SHL, S1_OP_SHR, S1_OP_SAL6, S1_OP_SAR, /* order = /digit */
  S1_OP_SHLD, S1_OP_SHRD, S1_OP_MOVZX, S1_OP_CLC, S1_OP_CPUID, S1_OP_RDTSC, S1_OP_RDTSCP, S1_OP_RDPMC,
  S1_OP_LFENCE, S1_OP_MFENCE, S1_OP_SFENCE, S1_OP_CLFLUSH, S1_OP_PREFETCHNTA, S1_OP_PREFETCHT0, S1_OP_PREFETCHT1,
  S1_OP_PREFETCHT2, S1_OP_XABORT, S1_OP_XBEGIN, S1_OP_XEND, S1_OP_ADCX, S1_OP_ADOX,
  S1_OP_BEXTR, S1_OP_BZHI, S1_OP_MULX, S1_OP_RORX, S1_OP_SARX, S1_OP_SHLX, S1_OP_SHRX,
  S1_OP_JCC = 100,      /* +cc */
  S1_OP_CMOVCC = 120,   /* +cc */
  S1_OP_SETCC = 140,    /* +cc */
  S1_OP_CVTDQ2PD = 160, S1_OP_CVTPD2DQ, S1_OP_DIVPD, S1_OP_MULPD, S1_OP_MOVD, S1_OP_MOVQ, S1_OP_MOVNTDQA, S1_OP_MOVNTQ,
  S1_OP_PADDB, S1_OP_PADDW, S1_OP_PADDD, S1_OP_PADDQ, S1_OP_PAND, S1_OP_PANDN, S1_OP_POR, S1_OP_PXOR,
  S1_OP_PSUBB, S1_OP_PSUBW, S1_OP_PSUBD, S1_OP_PSUBQ, S1_OP_PMULHUW, S1_OP_PMULHW, S1_OP_PMULLW, S1_OP_PMULUDQ,
  S1_OP_PMULHRSW, S1_OP_PMULLD, S1_OP_PMULDQ, S1_OP_PSRLDQ, S1_OP_PUNPCKLQDQ,
  S1_OP_VADDPD = 200, S1_OP_VDIVPD, S1_OP_VMULPD, S1_OP_VSUBPD, S1_OP_VMOVUPD, S1_OP_VMOVDQU,
  S1_OP_VPADDB, S1_OP_VPADDW, S1_OP_VPADDD, S1_OP_VPADDQ, S1_OP_VPAND, S1_OP_VPANDN, S1_OP_VPOR, S1_OP_VPXOR,
  S1_OP_VPSUBB, S1_OP_VPSUBW, S1_OP_VPSUBD, S1_OP_VPSUBQ, S1_OP_VPMULHUW, S1_OP_VPMULHW, S1_OP_VPMULLW, S1_OP_VPMULUDQ,
  S1_OP_VPMULDQ, S1_OP_VPMULHRSW, S1_OP_VPMULLD, S1_OP_VPERMD, S1_OP_VPERM2I128, S1_OP_VPERM2F128
};

struct s1_opd { int kind; int reg; };

struct s1_insn {
  int ok;              /* exactly one instruction decoded from the first len bytes */
  int len;
  int op;
  int opsize;          /* operand size in bits of the integer operation: 8/16/32/64; vectors: 64/128/256 */
  int asize;           /* effective address size 64 or 32 */
  int nopd;
  struct s1_opd opd[4];     /* in Intel-syntax order (destination first) */
  int has_mem;         /* one operand is memory */
  int has_base, base, has_index, index, scale;  /* scale as 1,2,4,8 */
  int64_t disp;        /* sign-extended displacement */
  int disp_bytes;      /* 0,1,4 */
  int rip_rel;         /* mod=00 rm=101 without SIB: RIP-relative (never legal output here) */
  int has_imm; uint64_t imm; int imm_bits;   /* imm = field extended as the architecture does at opsize (sign or none), to 64 bits */
  int64_t rel; int rel_bits;
  int mem_bits;        /* access width in bits of the memory operand (0 = not determined by encoding, e.g. lea) */
  int vex;             /* 0 none, 2 two-byte, 3 three-byte */
  int rex;             /* REX byte or 0 */
  int p66, p67, pf2, pf3;
};

/* operand forms */
enum { S1_F_NONE, S1_F_MR, S1_F_RM, S1_F_M, S1_F_M_I8, S1_F_M_IZ, S1_F_M_I8S, S1_F_RM_I8S, S1_F_RM_IZ,
       S1_F_MR_I8, S1_F_MR_CL, S1_F_M_1, S1_F_M_CL, S1_F_O, S1_F_O_I, S1_F_A_I, S1_F_A_O, S1_F_I8S, S1_F_IZ,
       S1_F_REL8, S1_F_REL32, S1_F_I8_NOMODRM,
       S1_F_RVM, S1_F_RMV, S1_F_RVM_I8, S1_F_RM_I8, S1_F_VM_I8 };
/* operand-size rule */
enum { S1_W_NONE, S1_W_8, S1_W_V /* 16/32/64 by 66 / REX.W */, S1_W_D64 /* default 64, 16 with 66 */, S1_W_VEXW /* 32/64 by VEX.W */,
       S1_W_MM, S1_W_X, S1_W_VL /* 128/256 by VEX.L */, S1_W_Y, S1_W_FAR };
/* register class of the ModRM.reg / ModRM.rm operand */
enum { S1_C_GPR /* by opsize */, S1_C_GPR8, S1_C_GPR16, S1_C_GPR32, S1_C_GPR64, S1_C_GPRW /* 32, 64 with REX.W */, S1_C_MM, S1_C_X, S1_C_V /* xmm/ymm by L */, S1_C_MEMONLY, S1_C_REGONLY_X, S1_C_NONE };
/* prefix requirement */
enum { S1_P_ANY /* integer: 66 = operand size, f2/f3 not allowed */, S1_P_NP, S1_P_66, S1_P_F3, S1_P_F2 };
enum { S1_M_1, S1_M_0F, S1_M_0F38, S1_M_0F3A };
/* VEX requirement */
enum { S1_V_NO, S1_V_L0, S1_V_L1, S1_V_LANY, S1_V_LZ };
enum { S1_VW_ANY, S1_VW_0, S1_VW_1, S1_VW_SIZE /* W selects 32/64 */ };

struct s1_ent {
  uint8_t map, opc, opc_mask; int8_t digit;      /* digit -1: any; for modrm-fixed forms modrm_eq >= 0 */
  int16_t modrm_eq;
  uint8_t pfx, vex, vexw;
  int16_t op; uint8_t form, wrule, creg, crm;
  uint8_t memw;                                   /* memory access bits/8 when not the opsize (0 = opsize) ; 255 = undefined (lea/prefetch) */
};

#define S1_E(map, opc, mask, digit, mrm, pfx, vex, vw, op, form, w, creg, crm, memw) \
  { map, opc, mask, digit, mrm, pfx, vex, vw, op, form, w, creg, crm, memw }

static const struct s1_ent S1_TABLE[] = {
  /* --- one-byte map, ALU 00..3d: op = (opc>>3), low 3 bits select the form */
  S1_E(S1_M_1, 0x00, 0xc7, -1, -1, S1_P_ANY, S1_V_NO, 0, S1_OP_ADD, S1_F_MR, S1_W_8, S1_C_GPR, S1_C_GPR, 0),
  S1_E(S1_M_1, 0x01, 0xc7, -1, -1, S1_P_ANY, S1_V_NO, 0, S1_OP_ADD, S1_F_MR, S1_W_V, S1_C_GPR, S1_C_GPR, 0),
  S1_E(S1_M_1, 0x02, 0xc7, -1, -1, S1_P_ANY, S1_V_NO, 0, S1_OP_ADD, S1_F_RM, S1_W_8, S1_C_GPR, S1_C_GPR, 0),
  S1_E(S1_M_1, 0x03, 0xc7, -1, -1, S1_P_ANY, S1_V_NO, 0, S1_OP_ADD, S1_F_RM, S1_W_V, S1_C_GPR, S1_C_GPR, 0),
  S1_E(S1_M_1, 0x04, 0xc7, -1, -1, S1_P_ANY, S1_V_NO, 0, S1_OP_ADD, S1_F_A_I, S1_W_8, S1_C_NONE, S1_C_NONE, 0),
  S1_E(S1_M_1, 0x05, 0xc7, -1, -1, S1_P_ANY, S1_V_NO, 0, S1_OP_ADD, S1_F_A_I, S1_W_V, S1_C_NONE, S1_C_NONE, 0),
  /* group 1: op = ADD + digit */
  S1_E(S1_M_1, 0x80, 0xff, -1, -1, S1_P_ANY, S1_V_NO, 0, S1_OP_ADD, S1_F_M_I8, S1_W_8, S1_C_NONE, S1_C_GPR, 0),
  S1_E(S1_M_1, 0x81, 0xff, -1, -1, S1_P_ANY, S1_V_NO, 0, S1_OP_ADD, S1_F_M_IZ, S1_W_V, S1_C_NONE, S1_C_GPR, 0),
  S1_E(S1_M_1, 0x83, 0xff, -1, -1, S1_P_ANY, S1_V_NO, 0, S1_OP_ADD, S1_F_M_I8S, S1_W_V, S1_C_NONE, S1_C_GPR, 0),
  S1_E(S1_M_1, 0x84, 0xff, -1, -1, S1_P_ANY, S1_V_NO, 0, S1_OP_TEST, S1_F_MR, S1_W_8, S1_C_GPR, S1_C_GPR, 0),
  S1_E(S1_M_1, 0x85, 0xff, -1, -1, S1_P_ANY, S1_V_NO, 0, S1_OP_TEST, S1_F_MR, S1_W_V, S1_C_GPR, S1_C_GPR, 0),
  S1_E(S1_M_1, 0x86, 0xff, -1, -1, S1_P_ANY, S1_V_NO, 0, S1_OP_XCHG, S1_F_MR, S1_W_8, S1_C_GPR, S1_C_GPR, 0),
  S1_E(S1_M_1, 0x87, 0xff, -1, -1, S1_P_ANY, S1_V_NO, 0, S1_OP_XCHG, S1_F_MR, S1_W_V, S1_C_GPR, S1_C_GPR, 0),
  S1_E(S1_M_1, 0x88, 0xff, -1, -1, S1_P_ANY, S1_V_NO, 0, S1_OP_MOV, S1_F_MR, S1_W_8, S1_C_GPR, S1_C_GPR, 0),
  S1_E(S1_M_1, 0x89, 0xff, -1, -1, S1_P_ANY, S1_V_NO, 0, S1_OP_MOV, S1_F_MR, S1_W_V, S1_C_GPR, S1_C_GPR, 0),
  S1_E(S1_M_1, 0x8a, 0xff, -1, -1, S1_P_ANY, S1_V_NO, 0, S1_OP_MOV, S1_F_RM, S1_W_8, S1_C_GPR, S1_C_GPR, 0),
  S1_E(S1_M_1, 0x8b, 0xff, -1, -1, S1_P_ANY, S1_V_NO, 0, S1_OP_MOV, S1_F_RM, S1_W_V, S1_C_GPR, S1_C_GPR, 0),
  S1_E(S1_M_1, 0x8d, 0xff, -1, -1, S1_P_ANY, S1_V_NO, 0, S1_OP_LEA, S1_F_RM, S1_W_V, S1_C_GPR, S1_C_MEMONLY, 255),
  S1_E(S1_M_1, 0x50, 0xf8, -1, -1, S1_P_ANY, S1_V_NO, 0, S1_OP_PUSH, S1_F_O, S1_W_D64, S1_C_NONE, S1_C_NONE, 0),
  S1_E(S1_M_1, 0x58, 0xf8, -1, -1, S1_P_ANY, S1_V_NO, 0, S1_OP_POP, S1_F_O, S1_W_D64, S1_C_NONE, S1_C_NONE, 0),
  S1_E(S1_M_1, 0x68, 0xff, -1, -1, S1_P_ANY, S1_V_NO, 0, S1_OP_PUSH, S1_F_IZ, S1_W_D64, S1_C_NONE, S1_C_NONE, 0),
  S1_E(S1_M_1, 0x6a, 0xff, -1, -1, S1_P_ANY, S1_V_NO, 0, S1_OP_PUSH, S1_F_I8S, S1_W_D64, S1_C_NONE, S1_C_NONE, 0),
  S1_E(S1_M_1, 0x69, 0xff, -1, -1, S1_P_ANY, S1_V_NO, 0, S1_OP_IMUL, S1_F_RM_IZ, S1_W_V, S1_C_GPR, S1_C_GPR, 0),
  S1_E(S1_M_1, 0x6b, 0xff, -1, -1, S1_P_ANY, S1_V_NO, 0, S1_OP_IMUL, S1_F_RM_I8S, S1_W_V, S1_C_GPR, S1_C_GPR, 0),
  S1_E(S1_M_1, 0x70, 0xf0, -1, -1, S1_P_ANY, S1_V_NO, 0, S1_OP_JCC, S1_F_REL8, S1_W_NONE, S1_C_NONE, S1_C_NONE, 0),
  S1_E(S1_M_1, 0x90, 0xf8, -1, -1, S1_P_ANY, S1_V_NO, 0, S1_OP_XCHG, S1_F_A_O, S1_W_V, S1_C_NONE, S1_C_NONE, 0), /* 90 w/o REX.B = NOP, handled in code */
  S1_E(S1_M_1, 0xa8, 0xff, -1, -1, S1_P_ANY, S1_V_NO, 0, S1_OP_TEST, S1_F_A_I, S1_W_8, S1_C_NONE, S1_C_NONE, 0),
  S1_E(S1_M_1, 0xa9, 0xff, -1, -1, S1_P_ANY, S1_V_NO, 0, S1_OP_TEST, S1_F_A_I, S1_W_V, S1_C_NONE, S1_C_NONE, 0),
  S1_E(S1_M_1, 0xb0, 0xf8, -1, -1, S1_P_ANY, S1_V_NO, 0, S1_OP_MOV, S1_F_O_I, S1_W_8, S1_C_NONE, S1_C_NONE, 0),
  S1_E(S1_M_1, 0xb8, 0xf8, -1, -1, S1_P_ANY, S1_V_NO, 0, S1_OP_MOV, S1_F_O_I, S1_W_V, S1_C_NONE, S1_C_NONE, 0),
  /* group 2 shifts: op = ROL + digit */
  S1_E(S1_M_1, 0xc0, 0xff, -1, -1, S1_P_ANY, S1_V_NO, 0, S1_OP_ROL, S1_F_M_I8, S1_W_8, S1_C_NONE, S1_C_GPR, 0),
  S1_E(S1_M_1, 0xc1, 0xff, -1, -1, S1_P_ANY, S1_V_NO, 0, S1_OP_ROL, S1_F_M_I8, S1_W_V, S1_C_NONE, S1_C_GPR, 0),
  S1_E(S1_M_1, 0xd0, 0xff, -1, -1, S1_P_ANY, S1_V_NO, 0, S1_OP_ROL, S1_F_M_1, S1_W_8, S1_C_NONE, S1_C_GPR, 0),
  S1_E(S1_M_1, 0xd1, 0xff, -1, -1, S1_P_ANY, S1_V_NO, 0, S1_OP_ROL, S1_F_M_1, S1_W_V, S1_C_NONE, S1_C_GPR, 0),
  S1_E(S1_M_1, 0xd2, 0xff, -1, -1, S1_P_ANY, S1_V_NO, 0, S1_OP_ROL, S1_F_M_CL, S1_W_8, S1_C_NONE, S1_C_GPR, 0),
  S1_E(S1_M_1, 0xd3, 0xff, -1, -1, S1_P_ANY, S1_V_NO, 0, S1_OP_ROL, S1_F_M_CL, S1_W_V, S1_C_NONE, S1_C_GPR, 0),
  S1_E(S1_M_1, 0xc3, 0xff, -1, -1, S1_P_ANY, S1_V_NO, 0, S1_OP_RET, S1_F_NONE, S1_W_NONE, S1_C_NONE, S1_C_NONE, 0),
  S1_E(S1_M_1, 0xc6, 0xff, 0, -1, S1_P_ANY, S1_V_NO, 0, S1_OP_MOV, S1_F_M_I8, S1_W_8, S1_C_NONE, S1_C_GPR, 0),
  S1_E(S1_M_1, 0xc7, 0xff, 0, -1, S1_P_ANY, S1_V_NO, 0, S1_OP_MOV, S1_F_M_IZ, S1_W_V, S1_C_NONE, S1_C_GPR, 0),
  S1_E(S1_M_1, 0xc6, 0xff, -1, 0xf8, S1_P_ANY, S1_V_NO, 0, S1_OP_XABORT, S1_F_I8_NOMODRM, S1_W_NONE, S1_C_NONE, S1_C_NONE, 0),
  S1_E(S1_M_1, 0xc7, 0xff, -1, 0xf8, S1_P_ANY, S1_V_NO, 0, S1_OP_XBEGIN, S1_F_REL32, S1_W_NONE, S1_C_NONE, S1_C_NONE, 0),
  S1_E(S1_M_1, 0xe3, 0xff, -1, -1, S1_P_ANY, S1_V_NO, 0, S1_OP_JRCXZ, S1_F_REL8, S1_W_NONE, S1_C_NONE, S1_C_NONE, 0),
  S1_E(S1_M_1, 0xe8, 0xff, -1, -1, S1_P_ANY, S1_V_NO, 0, S1_OP_CALL, S1_F_REL32, S1_W_NONE, S1_C_NONE, S1_C_NONE, 0),
  S1_E(S1_M_1, 0xe9, 0xff, -1, -1, S1_P_ANY, S1_V_NO, 0, S1_OP_JMP, S1_F_REL32, S1_W_NONE, S1_C_NONE, S1_C_NONE, 0),
  S1_E(S1_M_1, 0xeb, 0xff, -1, -1, S1_P_ANY, S1_V_NO, 0, S1_OP_JMP, S1_F_REL8, S1_W_NONE, S1_C_NONE, S1_C_NONE, 0),
  S1_E(S1_M_1, 0xf8, 0xff, -1, -1, S1_P_ANY, S1_V_NO, 0, S1_OP_CLC, S1_F_NONE, S1_W_NONE, S1_C_NONE, S1_C_NONE, 0),
  /* group 3 */
  S1_E(S1_M_1, 0xf6, 0xff, 0, -1, S1_P_ANY, S1_V_NO, 0, S1_OP_TEST, S1_F_M_I8, S1_W_8, S1_C_NONE, S1_C_GPR, 0),
  S1_E(S1_M_1, 0xf7, 0xff, 0, -1, S1_P_ANY, S1_V_NO, 0, S1_OP_TEST, S1_F_M_IZ, S1_W_V, S1_C_NONE, S1_C_GPR, 0),
  S1_E(S1_M_1, 0xf6, 0xff, 2, -1, S1_P_ANY, S1_V_NO, 0, S1_OP_NOT, S1_F_M, S1_W_8, S1_C_NONE, S1_C_GPR, 0),
  S1_E(S1_M_1, 0xf7, 0xff, 2, -1, S1_P_ANY, S1_V_NO, 0, S1_OP_NOT, S1_F_M, S1_W_V, S1_C_NONE, S1_C_GPR, 0),
  S1_E(S1_M_1, 0xf6, 0xff, 3, -1, S1_P_ANY, S1_V_NO, 0, S1_OP_NEG, S1_F_M, S1_W_8, S1_C_NONE, S1_C_GPR, 0),
  S1_E(S1_M_1, 0xf7, 0xff, 3, -1, S1_P_ANY, S1_V_NO, 0, S1_OP_NEG, S1_F_M, S1_W_V, S1_C_NONE, S1_C_GPR, 0),
  S1_E(S1_M_1, 0xf6, 0xff, 4, -1, S1_P_ANY, S1_V_NO, 0, S1_OP_MUL, S1_F_M, S1_W_8, S1_C_NONE, S1_C_GPR, 0),
  S1_E(S1_M_1, 0xf7, 0xff, 4, -1, S1_P_ANY, S1_V_NO, 0, S1_OP_MUL, S1_F_M, S1_W_V, S1_C_NONE, S1_C_GPR, 0),
  S1_E(S1_M_1, 0xf6, 0xff, 5, -1, S1_P_ANY, S1_V_NO, 0, S1_OP_IMUL, S1_F_M, S1_W_8, S1_C_NONE, S1_C_GPR, 0),
  S1_E(S1_M_1, 0xf7, 0xff, 5, -1, S1_P_ANY, S1_V_NO, 0, S1_OP_IMUL, S1_F_M, S1_W_V, S1_C_NONE, S1_C_GPR, 0),
  S1_E(S1_M_1, 0xf6, 0xff, 6, -1, S1_P_ANY, S1_V_NO, 0, S1_OP_DIV, S1_F_M, S1_W_8, S1_C_NONE, S1_C_GPR, 0),
  S1_E(S1_M_1, 0xf7, 0xff, 6, -1, S1_P_ANY, S1_V_NO, 0, S1_OP_DIV, S1_F_M, S1_W_V, S1_C_NONE, S1_C_GPR, 0),
  S1_E(S1_M_1, 0xf6, 0xff, 7, -1, S1_P_ANY, S1_V_NO, 0, S1_OP_IDIV, S1_F_M, S1_W_8, S1_C_NONE, S1_C_GPR, 0),
  S1_E(S1_M_1, 0xf7, 0xff, 7, -1, S1_P_ANY, S1_V_NO, 0, S1_OP_IDIV, S1_F_M, S1_W_V, S1_C_NONE, S1_C_GPR, 0),
  /* group 4/5 */
  S1_E(S1_M_1, 0xfe, 0xff, 0, -1, S1_P_ANY, S1_V_NO, 0, S1_OP_INC, S1_F_M, S1_W_8, S1_C_NONE, S1_C_GPR, 0),
  S1_E(S1_M_1, 0xfe, 0xff, 1, -1, S1_P_ANY, S1_V_NO, 0, S1_OP_DEC, S1_F_M, S1_W_8, S1_C_NONE, S1_C_GPR, 0),
  S1_E(S1_M_1, 0xff, 0xff, 0, -1, S1_P_ANY, S1_V_NO, 0, S1_OP_INC, S1_F_M, S1_W_V, S1_C_NONE, S1_C_GPR, 0),
  S1_E(S1_M_1, 0xff, 0xff, 1, -1, S1_P_ANY, S1_V_NO, 0, S1_OP_DEC, S1_F_M, S1_W_V, S1_C_NONE, S1_C_GPR, 0),
  S1_E(S1_M_1, 0xff, 0xff, 2, -1, S1_P_ANY, S1_V_NO, 0, S1_OP_CALL, S1_F_M, S1_W_D64, S1_C_NONE, S1_C_GPR, 0),
  S1_E(S1_M_1, 0xff, 0xff, 3, -1, S1_P_ANY, S1_V_NO, 0, S1_OP_CALLF, S1_F_M, S1_W_FAR, S1_C_NONE, S1_C_MEMONLY, 0),
  S1_E(S1_M_1, 0xff, 0xff, 4, -1, S1_P_ANY, S1_V_NO, 0, S1_OP_JMP, S1_F_M, S1_W_D64, S1_C_NONE, S1_C_GPR, 0),
  S1_E(S1_M_1, 0xff, 0xff, 5, -1, S1_P_ANY, S1_V_NO, 0, S1_OP_JMPF, S1_F_M, S1_W_FAR, S1_C_NONE, S1_C_MEMONLY, 0),
  S1_E(S1_M_1, 0xff, 0xff, 6, -1, S1_P_ANY, S1_V_NO, 0, S1_OP_PUSH, S1_F_M, S1_W_D64, S1_C_NONE, S1_C_GPR, 0),
  /* --- two-byte map 0F, integer */
  S1_E(S1_M_0F, 0x01, 0xff, -1, 0xf9, S1_P_NP, S1_V_NO, 0, S1_OP_RDTSCP, S1_F_NONE, S1_W_NONE, S1_C_NONE, S1_C_NONE, 0),
  S1_E(S1_M_0F, 0x01, 0xff, -1, 0xd5, S1_P_NP, S1_V_NO, 0, S1_OP_XEND, S1_F_NONE, S1_W_NONE, S1_C_NONE, S1_C_NONE, 0),
  S1_E(S1_M_0F, 0x18, 0xff, 0, -1, S1_P_NP, S1_V_NO, 0, S1_OP_PREFETCHNTA, S1_F_M, S1_W_8, S1_C_NONE, S1_C_MEMONLY, 255),
  S1_E(S1_M_0F, 0x18, 0xff, 1, -1, S1_P_NP, S1_V_NO, 0, S1_OP_PREFETCHT0, S1_F_M, S1_W_8, S1_C_NONE, S1_C_MEMONLY, 255),
  S1_E(S1_M_0F, 0x18, 0xff, 2, -1, S1_P_NP, S1_V_NO, 0, S1_OP_PREFETCHT1, S1_F_M, S1_W_8, S1_C_NONE, S1_C_MEMONLY, 255),
  S1_E(S1_M_0F, 0x18, 0xff, 3, -1, S1_P_NP, S1_V_NO, 0, S1_OP_PREFETCHT2, S1_F_M, S1_W_8, S1_C_NONE, S1_C_MEMONLY, 255),
  S1_E(S1_M_0F, 0x1f, 0xff, 0, -1, S1_P_ANY, S1_V_NO, 0, S1_OP_NOP, S1_F_M, S1_W_V, S1_C_NONE, S1_C_GPR, 255),
  S1_E(S1_M_0F, 0x31, 0xff, -1, -1, S1_P_NP, S1_V_NO, 0, S1_OP_RDTSC, S1_F_NONE, S1_W_NONE, S1_C_NONE, S1_C_NONE, 0),
  S1_E(S1_M_0F, 0x33, 0xff, -1, -1, S1_P_NP, S1_V_NO, 0, S1_OP_RDPMC, S1_F_NONE, S1_W_NONE, S1_C_NONE, S1_C_NONE, 0),
  S1_E(S1_M_0F, 0x40, 0xf0, -1, -1, S1_P_ANY, S1_V_NO, 0, S1_OP_CMOVCC, S1_F_RM, S1_W_V, S1_C_GPR, S1_C_GPR, 0),
  S1_E(S1_M_0F, 0x80, 0xf0, -1, -1, S1_P_ANY, S1_V_NO, 0, S1_OP_JCC, S1_F_REL32, S1_W_NONE, S1_C_NONE, S1_C_NONE, 0),
  S1_E(S1_M_0F, 0x90, 0xf0, -1, -1, S1_P_ANY, S1_V_NO, 0, S1_OP_SETCC, S1_F_M, S1_W_8, S1_C_NONE, S1_C_GPR, 0),
  S1_E(S1_M_0F, 0xa2, 0xff, -1, -1, S1_P_NP, S1_V_NO, 0, S1_OP_CPUID, S1_F_NONE, S1_W_NONE, S1_C_NONE, S1_C_NONE, 0),
  S1_E(S1_M_0F, 0xa4, 0xff, -1, -1, S1_P_ANY, S1_V_NO, 0, S1_OP_SHLD, S1_F_MR_I8, S1_W_V, S1_C_GPR, S1_C_GPR, 0),
  S1_E(S1_M_0F, 0xa5, 0xff, -1, -1, S1_P_ANY, S1_V_NO, 0, S1_OP_SHLD, S1_F_MR_CL, S1_W_V, S1_C_GPR, S1_C_GPR, 0),
  S1_E(S1_M_0F, 0xac, 0xff, -1, -1, S1_P_ANY, S1_V_NO, 0, S1_OP_SHRD, S1_F_MR_I8, S1_W_V, S1_C_GPR, S1_C_GPR, 0),
  S1_E(S1_M_0F, 0xad, 0xff, -1, -1, S1_P_ANY, S1_V_NO, 0, S1_OP_SHRD, S1_F_MR_CL, S1_W_V, S1_C_GPR, S1_C_GPR, 0),
  S1_E(S1_M_0F, 0xae, 0xff, -1, 0xe8, S1_P_NP, S1_V_NO, 0, S1_OP_LFENCE, S1_F_NONE, S1_W_NONE, S1_C_NONE, S1_C_NONE, 0),
  S1_E(S1_M_0F, 0xae, 0xff, -1, 0xf0, S1_P_NP, S1_V_NO, 0, S1_OP_MFENCE, S1_F_NONE, S1_W_NONE, S1_C_NONE, S1_C_NONE, 0),
  S1_E(S1_M_0F, 0xae, 0xff, -1, 0xf8, S1_P_NP, S1_V_NO, 0, S1_OP_SFENCE, S1_F_NONE, S1_W_NONE, S1_C_NONE, S1_C_NONE, 0),
  S1_E(S1_M_0F, 0xae, 0xff, 7, -1, S1_P_NP, S1_V_NO, 0, S1_OP_CLFLUSH, S1_F_M, S1_W_8, S1_C_NONE, S1_C_MEMONLY, 0),
  S1_E(S1_M_0F, 0xaf, 0xff, -1, -1, S1_P_ANY, S1_V_NO, 0, S1_OP_IMUL, S1_F_RM, S1_W_V, S1_C_GPR, S1_C_GPR, 0),
  S1_E(S1_M_0F, 0xb6, 0xff, -1, -1, S1_P_ANY, S1_V_NO, 0, S1_OP_MOVZX, S1_F_RM, S1_W_V, S1_C_GPR, S1_C_GPR8, 1),
  S1_E(S1_M_0F, 0xb7, 0xff, -1, -1, S1_P_ANY, S1_V_NO, 0, S1_OP_MOVZX, S1_F_RM, S1_W_V, S1_C_GPR, S1_C_GPR16, 2),
  S1_E(S1_M_0F38, 0xf6, 0xff, -1, -1, S1_P_66, S1_V_NO, 0, S1_OP_ADCX, S1_F_RM, S1_W_VEXW, S1_C_GPRW, S1_C_GPRW, 0),
  S1_E(S1_M_0F38, 0xf6, 0xff, -1, -1, S1_P_F3, S1_V_NO, 0, S1_OP_ADOX, S1_F_RM, S1_W_VEXW, S1_C_GPRW, S1_C_GPRW, 0),
  /* --- BMI2 / BMI1 (VEX.LZ) */
  S1_E(S1_M_0F38, 0xf7, 0xff, -1, -1, S1_P_NP, S1_V_LZ, S1_VW_SIZE, S1_OP_BEXTR, S1_F_RMV, S1_W_VEXW, S1_C_GPRW, S1_C_GPRW, 0),
  S1_E(S1_M_0F38, 0xf5, 0xff, -1, -1, S1_P_NP, S1_V_LZ, S1_VW_SIZE, S1_OP_BZHI, S1_F_RMV, S1_W_VEXW, S1_C_GPRW, S1_C_GPRW, 0),
  S1_E(S1_M_0F38, 0xf6, 0xff, -1, -1, S1_P_F2, S1_V_LZ, S1_VW_SIZE, S1_OP_MULX, S1_F_RVM, S1_W_VEXW, S1_C_GPRW, S1_C_GPRW, 0),
  S1_E(S1_M_0F3A, 0xf0, 0xff, -1, -1, S1_P_F2, S1_V_LZ, S1_VW_SIZE, S1_OP_RORX, S1_F_RM_I8, S1_W_VEXW, S1_C_GPRW, S1_C_GPRW, 0),
  S1_E(S1_M_0F38, 0xf7, 0xff, -1, -1, S1_P_F3, S1_V_LZ, S1_VW_SIZE, S1_OP_SARX, S1_F_RMV, S1_W_VEXW, S1_C_GPRW, S1_C_GPRW, 0),
  S1_E(S1_M_0F38, 0xf7, 0xff, -1, -1, S1_P_66, S1_V_LZ, S1_VW_SIZE, S1_OP_SHLX, S1_F_RMV, S1_W_VEXW, S1_C_GPRW, S1_C_GPRW, 0),
  S1_E(S1_M_0F38, 0xf7, 0xff, -1, -1, S1_P_F2, S1_V_LZ, S1_VW_SIZE, S1_OP_SHRX, S1_F_RMV, S1_W_VEXW, S1_C_GPRW, S1_C_GPRW, 0),
  /* --- SSE2 packed double */
  S1_E(S1_M_0F, 0xe6, 0xff, -1, -1, S1_P_F3, S1_V_NO, 0, S1_OP_CVTDQ2PD, S1_F_RM, S1_W_X, S1_C_X, S1_C_X, 8),
  S1_E(S1_M_0F, 0xe6, 0xff, -1, -1, S1_P_F2, S1_V_NO, 0, S1_OP_CVTPD2DQ, S1_F_RM, S1_W_X, S1_C_X, S1_C_X, 16),
  S1_E(S1_M_0F, 0x5e, 0xff, -1, -1, S1_P_66, S1_V_NO, 0, S1_OP_DIVPD, S1_F_RM, S1_W_X, S1_C_X, S1_C_X, 16),
  S1_E(S1_M_0F, 0x59, 0xff, -1, -1, S1_P_66, S1_V_NO, 0, S1_OP_MULPD, S1_F_RM, S1_W_X, S1_C_X, S1_C_X, 16),
  /* movd / movq */
  S1_E(S1_M_0F, 0x6e, 0xff, -1, -1, S1_P_66, S1_V_NO, 0, S1_OP_MOVD, S1_F_RM, S1_W_X, S1_C_X, S1_C_GPRW, 0),   /* REX.W: movq */
  S1_E(S1_M_0F, 0x7e, 0xff, -1, -1, S1_P_66, S1_V_NO, 0, S1_OP_MOVD, S1_F_MR, S1_W_X, S1_C_X, S1_C_GPRW, 0),
  S1_E(S1_M_0F, 0x6e, 0xff, -1, -1, S1_P_NP, S1_V_NO, 0, S1_OP_MOVD, S1_F_RM, S1_W_MM, S1_C_MM, S1_C_GPRW, 0),
  S1_E(S1_M_0F, 0x7e, 0xff, -1, -1, S1_P_NP, S1_V_NO, 0, S1_OP_MOVD, S1_F_MR, S1_W_MM, S1_C_MM, S1_C_GPRW, 0),
  S1_E(S1_M_0F, 0x7e, 0xff, -1, -1, S1_P_F3, S1_V_NO, 0, S1_OP_MOVQ, S1_F_RM, S1_W_X, S1_C_X, S1_C_X, 8),
  S1_E(S1_M_0F, 0xd6, 0xff, -1, -1, S1_P_66, S1_V_NO, 0, S1_OP_MOVQ, S1_F_MR, S1_W_X, S1_C_X, S1_C_X, 8),
  S1_E(S1_M_0F, 0x6f, 0xff, -1, -1, S1_P_NP, S1_V_NO, 0, S1_OP_MOVQ, S1_F_RM, S1_W_MM, S1_C_MM, S1_C_MM, 8),
  S1_E(S1_M_0F, 0x7f, 0xff, -1, -1, S1_P_NP, S1_V_NO, 0, S1_OP_MOVQ, S1_F_MR, S1_W_MM, S1_C_MM, S1_C_MM, 8),
  S1_E(S1_M_0F38, 0x2a, 0xff, -1, -1, S1_P_66, S1_V_NO, 0, S1_OP_MOVNTDQA, S1_F_RM, S1_W_X, S1_C_X, S1_C_MEMONLY, 16),
  S1_E(S1_M_0F, 0xe7, 0xff, -1, -1, S1_P_NP, S1_V_NO, 0, S1_OP_MOVNTQ, S1_F_MR, S1_W_MM, S1_C_MM, S1_C_MEMONLY, 8),
  /* packed integer, MMX (NP) and SSE2 (66) share opcode bytes */
#define S1_PI(opc, op) \
  S1_E(S1_M_0F, opc, 0xff, -1, -1, S1_P_NP, S1_V_NO, 0, op, S1_F_RM, S1_W_MM, S1_C_MM, S1_C_MM, 8), \
  S1_E(S1_M_0F, opc, 0xff, -1, -1, S1_P_66, S1_V_NO, 0, op, S1_F_RM, S1_W_X, S1_C_X, S1_C_X, 16)
  S1_PI(0xfc, S1_OP_PADDB), S1_PI(0xfd, S1_OP_PADDW), S1_PI(0xfe, S1_OP_PADDD), S1_PI(0xd4, S1_OP_PADDQ),
  S1_PI(0xdb, S1_OP_PAND), S1_PI(0xdf, S1_OP_PANDN), S1_PI(0xeb, S1_OP_POR), S1_PI(0xef, S1_OP_PXOR),
  S1_PI(0xf8, S1_OP_PSUBB), S1_PI(0xf9, S1_OP_PSUBW), S1_PI(0xfa, S1_OP_PSUBD), S1_PI(0xfb, S1_OP_PSUBQ),
  S1_PI(0xe4, S1_OP_PMULHUW), S1_PI(0xe5, S1_OP_PMULHW), S1_PI(0xd5, S1_OP_PMULLW), S1_PI(0xf4, S1_OP_PMULUDQ),
  S1_E(S1_M_0F38, 0x0b, 0xff, -1, -1, S1_P_NP, S1_V_NO, 0, S1_OP_PMULHRSW, S1_F_RM, S1_W_MM, S1_C_MM, S1_C_MM, 8),
  S1_E(S1_M_0F38, 0x0b, 0xff, -1, -1, S1_P_66, S1_V_NO, 0, S1_OP_PMULHRSW, S1_F_RM, S1_W_X, S1_C_X, S1_C_X, 16),
  S1_E(S1_M_0F38, 0x40, 0xff, -1, -1, S1_P_66, S1_V_NO, 0, S1_OP_PMULLD, S1_F_RM, S1_W_X, S1_C_X, S1_C_X, 16),
  S1_E(S1_M_0F38, 0x28, 0xff, -1, -1, S1_P_66, S1_V_NO, 0, S1_OP_PMULDQ, S1_F_RM, S1_W_X, S1_C_X, S1_C_X, 16),
  S1_E(S1_M_0F, 0x73, 0xff, 3, -1, S1_P_66, S1_V_NO, 0, S1_OP_PSRLDQ, S1_F_VM_I8, S1_W_X, S1_C_NONE, S1_C_REGONLY_X, 0),
  S1_E(S1_M_0F, 0x6c, 0xff, -1, -1, S1_P_66, S1_V_NO, 0, S1_OP_PUNPCKLQDQ, S1_F_RM, S1_W_X, S1_C_X, S1_C_X, 16),
  /* --- AVX / AVX2 */
#define S1_AVX3(map, opc, pfx, vw, op) \
  S1_E(map, opc, 0xff, -1, -1, pfx, S1_V_LANY, vw, op, S1_F_RVM, S1_W_VL, S1_C_V, S1_C_V, 0)
  S1_AVX3(S1_M_0F, 0x58, S1_P_66, S1_VW_ANY, S1_OP_VADDPD), S1_AVX3(S1_M_0F, 0x5e, S1_P_66, S1_VW_ANY, S1_OP_VDIVPD),
  S1_AVX3(S1_M_0F, 0x59, S1_P_66, S1_VW_ANY, S1_OP_VMULPD), S1_AVX3(S1_M_0F, 0x5c, S1_P_66, S1_VW_ANY, S1_OP_VSUBPD),
  S1_E(S1_M_0F, 0x10, 0xff, -1, -1, S1_P_66, S1_V_LANY, S1_VW_ANY, S1_OP_VMOVUPD, S1_F_RM, S1_W_VL, S1_C_V, S1_C_V, 0),
  S1_E(S1_M_0F, 0x11, 0xff, -1, -1, S1_P_66, S1_V_LANY, S1_VW_ANY, S1_OP_VMOVUPD, S1_F_MR, S1_W_VL, S1_C_V, S1_C_V, 0),
  S1_E(S1_M_0F, 0x6f, 0xff, -1, -1, S1_P_F3, S1_V_LANY, S1_VW_ANY, S1_OP_VMOVDQU, S1_F_RM, S1_W_VL, S1_C_V, S1_C_V, 0),
  S1_E(S1_M_0F, 0x7f, 0xff, -1, -1, S1_P_F3, S1_V_LANY, S1_VW_ANY, S1_OP_VMOVDQU, S1_F_MR, S1_W_VL, S1_C_V, S1_C_V, 0),
  S1_AVX3(S1_M_0F, 0xfc, S1_P_66, S1_VW_ANY, S1_OP_VPADDB), S1_AVX3(S1_M_0F, 0xfd, S1_P_66, S1_VW_ANY, S1_OP_VPADDW),
  S1_AVX3(S1_M_0F, 0xfe, S1_P_66, S1_VW_ANY, S1_OP_VPADDD), S1_AVX3(S1_M_0F, 0xd4, S1_P_66, S1_VW_ANY, S1_OP_VPADDQ),
  S1_AVX3(S1_M_0F, 0xdb, S1_P_66, S1_VW_ANY, S1_OP_VPAND), S1_AVX3(S1_M_0F, 0xdf, S1_P_66, S1_VW_ANY, S1_OP_VPANDN),
  S1_AVX3(S1_M_0F, 0xeb, S1_P_66, S1_VW_ANY, S1_OP_VPOR), S1_AVX3(S1_M_0F, 0xef, S1_P_66, S1_VW_ANY, S1_OP_VPXOR),
  S1_AVX3(S1_M_0F, 0xf8, S1_P_66, S1_VW_ANY, S1_OP_VPSUBB), S1_AVX3(S1_M_0F, 0xf9, S1_P_66, S1_VW_ANY, S1_OP_VPSUBW),
  S1_AVX3(S1_M_0F, 0xfa, S1_P_66, S1_VW_ANY, S1_OP_VPSUBD), S1_AVX3(S1_M_0F, 0xfb, S1_P_66, S1_VW_ANY, S1_OP_VPSUBQ),
  S1_AVX3(S1_M_0F, 0xe4, S1_P_66, S1_VW_ANY, S1_OP_VPMULHUW), S1_AVX3(S1_M_0F, 0xe5, S1_P_66, S1_VW_ANY, S1_OP_VPMULHW),
  S1_AVX3(S1_M_0F, 0xd5, S1_P_66, S1_VW_ANY, S1_OP_VPMULLW), S1_AVX3(S1_M_0F, 0xf4, S1_P_66, S1_VW_ANY, S1_OP_VPMULUDQ),
  S1_AVX3(S1_M_0F38, 0x28, S1_P_66, S1_VW_ANY, S1_OP_VPMULDQ), S1_AVX3(S1_M_0F38, 0x0b, S1_P_66, S1_VW_ANY, S1_OP_VPMULHRSW),
  S1_AVX3(S1_M_0F38, 0x40, S1_P_66, S1_VW_ANY, S1_OP_VPMULLD),
  S1_E(S1_M_0F38, 0x36, 0xff, -1, -1, S1_P_66, S1_V_L1, S1_VW_0, S1_OP_VPERMD, S1_F_RVM, S1_W_VL, S1_C_V, S1_C_V, 0),
  S1_E(S1_M_0F3A, 0x46, 0xff, -1, -1, S1_P_66, S1_V_L1, S1_VW_0, S1_OP_VPERM2I128, S1_F_RVM_I8, S1_W_VL, S1_C_V, S1_C_V, 0),
  S1_E(S1_M_0F3A, 0x06, 0xff, -1, -1, S1_P_66, S1_V_L1, S1_VW_0, S1_OP_VPERM2F128, S1_F_RVM_I8, S1_W_VL, S1_C_V, S1_C_V, 0),
};
#define S1_NENT ((int)(sizeof(S1_TABLE) / sizeof(S1_TABLE[0])))

static inline int s1_gpr_kind(int bits) { return bits == 8 ? S1_K_R8 : bits == 16 ? S1_K_R16 : bits == 32 ? S1_K_R32 : S1_K_R64; }

/* register operand of class c, number n (0..15), given opsize and rex presence */
static inline struct s1_opd s1_regopd(int c, int n, int opsize, int rex, int vl) {
  struct s1_opd o; o.reg = n; o.kind = S1_K_NONE;
  switch (c) {
  case S1_C_GPR:  o.kind = s1_gpr_kind(opsize); break;
  case S1_C_GPR8: o.kind = S1_K_R8; break;
  case S1_C_GPR16: o.kind = S1_K_R16; break;
  case S1_C_GPR32: o.kind = S1_K_R32; break;
  case S1_C_GPR64: o.kind = S1_K_R64; break;
  case S1_C_GPRW: o.kind = opsize == 64 ? S1_K_R64 : S1_K_R32; break;
  case S1_C_MM: o.kind = S1_K_MM; o.reg = n & 7; break;
  case S1_C_X: case S1_C_REGONLY_X: o.kind = S1_K_XMM; break;
  case S1_C_V: o.kind = vl ? S1_K_YMM : S1_K_XMM; break;
  default: break;
  }
  /* legacy high-byte registers: 8-bit operand, no REX, numbers 4..7 are ah ch dh bh */
  if (o.kind == S1_K_R8 && !rex && n >= 4 && n <= 7) o.kind = S1_K_R8H;
  return o;
}

static void s1_decode(const uint8_t *b, int n, struct s1_insn *d) {
  int i = 0, k;
  d->ok = 0; d->len = 0; d->op = S1_OP_INVALID; d->opsize = 0; d->asize = 64; d->nopd = 0;
  for (k = 0; k < 4; k++) { d->opd[k].kind = S1_K_NONE; d->opd[k].reg = 0; }
  d->has_mem = 0; d->has_base = 0; d->base = 0; d->has_index = 0; d->index = 0; d->scale = 1; d->disp = 0; d->disp_bytes = 0;
  d->rip_rel = 0; d->has_imm = 0; d->imm = 0; d->imm_bits = 0; d->rel = 0; d->rel_bits = 0; d->mem_bits = 0;
  d->vex = 0; d->rex = 0; d->p66 = 0; d->p67 = 0; d->pf2 = 0; d->pf3 = 0;
  /* legacy prefixes (at most 4 looked at; the subset never emits more than 66 66 66 67) */
  for (k = 0; k < 5; k++) {
    if (i >= n) return;
    if (b[i] == 0x66) { d->p66++; i++; }
    else if (b[i] == 0x67) { d->p67++; i++; }
    else if (b[i] == 0xf2) { d->pf2++; i++; }
    else if (b[i] == 0xf3) { d->pf3++; i++; }
    else break;
  }
  if (i >= n) return;
  int rex = 0, rex_w = 0, rex_r = 0, rex_x = 0, rex_b = 0;
  int map = S1_M_1, vex = 0, vex_l = 0, vvvv = 0, vex_pp = 0;
  if ((b[i] & 0xf0) == 0x40) { rex = b[i]; rex_w = (rex >> 3) & 1; rex_r = (rex >> 2) & 1; rex_x = (rex >> 1) & 1; rex_b = rex & 1; i++; }
  if (i >= n) return;
  if (b[i] == 0xc5 || b[i] == 0xc4) {
    /* VEX; REX/66/F2/F3 before VEX is #UD */
    if (rex || d->p66 || d->pf2 || d->pf3) return;
    if (b[i] == 0xc5) {
      if (i + 2 >= n) return;
      uint8_t v = b[i + 1];
      rex_r = !((v >> 7) & 1); vvvv = (~(v >> 3)) & 15; vex_l = (v >> 2) & 1; vex_pp = v & 3; map = S1_M_0F; vex = 2; i += 2;
    } else {
      if (i + 3 >= n) return;
      uint8_t v1 = b[i + 1], v2 = b[i + 2];
      rex_r = !((v1 >> 7) & 1); rex_x = !((v1 >> 6) & 1); rex_b = !((v1 >> 5) & 1);
      int mm = v1 & 31;
      if (mm == 1) map = S1_M_0F; else if (mm == 2) map = S1_M_0F38; else if (mm == 3) map = S1_M_0F3A; else return;
      rex_w = (v2 >> 7) & 1; vvvv = (~(v2 >> 3)) & 15; vex_l = (v2 >> 2) & 1; vex_pp = v2 & 3; vex = 3; i += 3;
    }
  } else if (b[i] == 0x0f) {
    i++; if (i >= n) return;
    if (b[i] == 0x38) { map = S1_M_0F38; i++; } else if (b[i] == 0x3a) { map = S1_M_0F3A; i++; } else map = S1_M_0F;
  }
  if (i >= n) return;
  uint8_t opc = b[i++];
  d->vex = vex; d->rex = rex;
  /* effective mandatory-prefix class */
  int pclass;
  if (vex) pclass = vex_pp == 0 ? S1_P_NP : vex_pp == 1 ? S1_P_66 : vex_pp == 2 ? S1_P_F3 : S1_P_F2;
  else pclass = d->pf3 ? S1_P_F3 : d->pf2 ? S1_P_F2 : d->p66 ? S1_P_66 : S1_P_NP;
  int modrm = (i < n) ? b[i] : -1;
  int digit = modrm >= 0 ? (modrm >> 3) & 7 : -1;
  /* table search */
  int e = -1;
  for (k = 0; k < S1_NENT; k++) {
    const struct s1_ent *t = &S1_TABLE[k];
    if (t->map != map || (opc & t->opc_mask) != t->opc) continue;
    if ((t->vex == S1_V_NO) != (vex == 0)) continue;
    if (t->pfx == S1_P_ANY) { if (d->pf2 || d->pf3) continue; }
    else if (t->pfx != pclass) continue;
    else if (!vex && t->pfx != S1_P_66 && d->p66) continue;      /* stray 66 on an NP/F3/F2-only form */
    if (t->modrm_eq >= 0) { if (modrm != t->modrm_eq) continue; }
    else if (t->digit >= 0) { if (digit != t->digit) continue; }
    if (t->vex == S1_V_L0 && vex_l) continue;
    if (t->vex == S1_V_L1 && !vex_l) continue;
    if (t->vex == S1_V_LZ && vex_l) continue;
    if (t->vexw == S1_VW_0 && vex && rex_w) continue;
    if (t->vexw == S1_VW_1 && vex && !rex_w) continue;
    /* a modrm-fixed entry (e.g. 0F AE F8 sfence) shadows the /digit entry with mod=3 */
    e = k; break;
  }
  if (e < 0) return;
  const struct s1_ent *t = &S1_TABLE[e];
  /* operand size */
  int opsize = 0;
  switch (t->wrule) {
  case S1_W_8: opsize = 8; break;
  case S1_W_V: opsize = rex_w ? 64 : d->p66 ? 16 : 32; break;
  case S1_W_D64: opsize = d->p66 ? 16 : 64; break;
  case S1_W_VEXW: opsize = rex_w ? 64 : 32; break;
  case S1_W_MM: opsize = 64; break;
  case S1_W_X: opsize = 128; break;
  case S1_W_VL: opsize = vex_l ? 256 : 128; break;
  case S1_W_FAR: opsize = rex_w ? 64 : d->p66 ? 16 : 32; break;
  default: opsize = 0; break;
  }
  d->opsize = opsize;
  d->asize = d->p67 ? 32 : 64;
  int op = t->op;
  if (t->opc_mask == 0xf0) op += opc & 15;                                   /* cc families */
  if (map == S1_M_1 && opc < 0x40) op = S1_OP_ADD + ((opc >> 3) & 7);          /* ALU rows */
  int needs_modrm = !(t->form == S1_F_NONE && t->modrm_eq < 0) && t->form != S1_F_O && t->form != S1_F_O_I && t->form != S1_F_A_I &&
                    t->form != S1_F_A_O && t->form != S1_F_I8S && t->form != S1_F_IZ && !(t->form == S1_F_REL8) &&
                    !(t->form == S1_F_REL32 && t->modrm_eq < 0);
  struct s1_opd rmop; rmop.kind = S1_K_NONE; rmop.reg = 0;
  struct s1_opd regop; regop.kind = S1_K_NONE; regop.reg = 0;
  if (needs_modrm) {
    if (i >= n) return;
    i++;                                                                   /* consume modrm */
    int mod = (modrm >> 6) & 3, rm = modrm & 7, reg = ((modrm >> 3) & 7) | (rex_r << 3);
    if ((map == S1_M_1 && (opc == 0x80 || opc == 0x81 || opc == 0x83))) op = S1_OP_ADD + digit;
    if ((map == S1_M_1 && (opc == 0xc0 || opc == 0xc1 || (opc >= 0xd0 && opc <= 0xd3)))) op = S1_OP_ROL + digit;
    regop = s1_regopd(t->creg, reg, opsize, rex, vex_l);
    if (t->modrm_eq >= 0) { /* fixed byte, no operands */ }
    else if (mod == 3) {
      if (t->crm == S1_C_MEMONLY) return;
      rmop = s1_regopd(t->crm, rm | (rex_b << 3), opsize, rex, vex_l);
    } else {
      if (t->crm == S1_C_REGONLY_X) return;
      rmop.kind = S1_K_MEM; d->has_mem = 1;
      if (rm == 4) {
        if (i >= n) return;
        uint8_t sib = b[i++];
        int ss = (sib >> 6) & 3, idx = ((sib >> 3) & 7) | (rex_x << 3), bs = (sib & 7) | (rex_b << 3);
        d->scale = 1 << ss;
        if (idx != 4) { d->has_index = 1; d->index = idx; }
        if ((sib & 7) == 5 && mod == 0) { d->has_base = 0; d->disp_bytes = 4; }
        else { d->has_base = 1; d->base = bs; }
      } else if (rm == 5 && mod == 0) { d->rip_rel = 1; d->disp_bytes = 4; }
      else { d->has_base = 1; d->base = rm | (rex_b << 3); }
      if (mod == 1) d->disp_bytes = 1; else if (mod == 2) d->disp_bytes = 4;
      if (d->disp_bytes == 1) { if (i >= n) return; d->disp = (int8_t)b[i]; i += 1; }
      else if (d->disp_bytes == 4) {
        if (i + 3 >= n) return;
        d->disp = (int32_t)((uint32_t)b[i] | ((uint32_t)b[i + 1] << 8) | ((uint32_t)b[i + 2] << 16) | ((uint32_t)b[i + 3] << 24)); i += 4;
      }
      if (d->asize == 32) d->disp = d->disp; /* 32-bit address arithmetic wraps; compared as written */
      d->mem_bits = t->memw == 255 ? 0 : t->memw ? t->memw * 8 : (t->crm == S1_C_GPRW ? opsize : opsize);
      if (t->wrule == S1_W_VL && !t->memw) d->mem_bits = opsize;
      /* movd/movq with GPRW rm: 32 or 64 by REX.W */
      if (t->crm == S1_C_GPRW) d->mem_bits = rex_w ? 64 : 32;
      if (t->wrule == S1_W_FAR) d->mem_bits = opsize + 16;
    }
  }
  /* GPRW classes (adcx/adox/movd): 32/64 by REX.W */
  if (t->crm == S1_C_GPRW && rmop.kind != S1_K_MEM && rmop.kind != S1_K_NONE) rmop.kind = rex_w ? S1_K_R64 : S1_K_R32;
  if (t->creg == S1_C_GPRW) regop.kind = rex_w ? S1_K_R64 : S1_K_R32;
  /* movd -> movq naming when REX.W */
  if (op == S1_OP_MOVD && rex_w) op = S1_OP_MOVQ;
  /* operands and immediates by form */
  int immb = 0, imm_sx = 0; /* bytes of immediate; sign-extend to opsize */
  struct s1_opd vop = s1_regopd(t->creg == S1_C_V ? S1_C_V : S1_C_GPRW, vvvv, opsize, 1, vex_l);
  if (t->creg == S1_C_GPRW) vop.kind = rex_w ? S1_K_R64 : S1_K_R32;
  struct s1_opd acc; acc.reg = 0; acc.kind = s1_gpr_kind(opsize);
  struct s1_opd cl; cl.reg = 1; cl.kind = S1_K_R8;
  struct s1_opd one; one.reg = 0; one.kind = S1_K_ONE;
  struct s1_opd immo; immo.reg = 0; immo.kind = S1_K_IMM;
  struct s1_opd relo; relo.reg = 0; relo.kind = S1_K_REL;
  int uses_vvvv = 0;
  switch (t->form) {
  case S1_F_NONE: d->nopd = 0; break;
  case S1_F_MR: d->nopd = 2; d->opd[0] = rmop; d->opd[1] = regop; break;
  case S1_F_RM: d->nopd = 2; d->opd[0] = regop; d->opd[1] = rmop; break;
  case S1_F_M: d->nopd = 1; d->opd[0] = rmop; break;
  case S1_F_M_I8: d->nopd = 2; d->opd[0] = rmop; d->opd[1] = immo; immb = 1; imm_sx = (t->wrule == S1_W_8) ? 0 : 0; break;
  case S1_F_M_IZ: d->nopd = 2; d->opd[0] = rmop; d->opd[1] = immo; immb = opsize == 16 ? 2 : 4; imm_sx = 1; break;
  case S1_F_M_I8S: d->nopd = 2; d->opd[0] = rmop; d->opd[1] = immo; immb = 1; imm_sx = 1; break;
  case S1_F_RM_I8S: d->nopd = 3; d->opd[0] = regop; d->opd[1] = rmop; d->opd[2] = immo; immb = 1; imm_sx = 1; break;
  case S1_F_RM_IZ: d->nopd = 3; d->opd[0] = regop; d->opd[1] = rmop; d->opd[2] = immo; immb = opsize == 16 ? 2 : 4; imm_sx = 1; break;
  case S1_F_RM_I8: d->nopd = 3; d->opd[0] = regop; d->opd[1] = rmop; d->opd[2] = immo; immb = 1; break;
  case S1_F_MR_I8: d->nopd = 3; d->opd[0] = rmop; d->opd[1] = regop; d->opd[2] = immo; immb = 1; break;
  case S1_F_MR_CL: d->nopd = 3; d->opd[0] = rmop; d->opd[1] = regop; d->opd[2] = cl; break;
  case S1_F_M_1: d->nopd = 2; d->opd[0] = rmop; d->opd[1] = one; break;
  case S1_F_M_CL: d->nopd = 2; d->opd[0] = rmop; d->opd[1] = cl; break;
  case S1_F_O: d->nopd = 1; d->opd[0] = s1_regopd(S1_C_GPR, (opc & 7) | (rex_b << 3), opsize, rex, 0); break;
  case S1_F_O_I: d->nopd = 2; d->opd[0] = s1_regopd(S1_C_GPR, (opc & 7) | (rex_b << 3), opsize, rex, 0); d->opd[1] = immo;
    immb = opsize / 8; break;
  case S1_F_A_I: d->nopd = 2; d->opd[0] = acc; d->opd[1] = immo; immb = opsize == 8 ? 1 : opsize == 16 ? 2 : 4; imm_sx = 1; break;
  case S1_F_A_O:
    if (opc == 0x90 && !rex_b && !d->pf3) { op = S1_OP_NOP; d->nopd = 0; }
    else { d->nopd = 2; d->opd[0] = acc; d->opd[1] = s1_regopd(S1_C_GPR, (opc & 7) | (rex_b << 3), opsize, rex, 0); }
    break;
  case S1_F_I8S: d->nopd = 1; d->opd[0] = immo; immb = 1; imm_sx = 1; break;
  case S1_F_IZ: d->nopd = 1; d->opd[0] = immo; immb = opsize == 16 ? 2 : 4; imm_sx = 1; break;
  case S1_F_I8_NOMODRM: d->nopd = 1; d->opd[0] = immo; immb = 1; break;
  case S1_F_REL8: d->nopd = 1; d->opd[0] = relo; d->rel_bits = 8; break;
  case S1_F_REL32: d->nopd = 1; d->opd[0] = relo; d->rel_bits = 32; break;
  case S1_F_RVM: d->nopd = 3; d->opd[0] = regop; d->opd[1] = vop; d->opd[2] = rmop; uses_vvvv = 1; break;
  case S1_F_RMV: d->nopd = 3; d->opd[0] = regop; d->opd[1] = rmop; d->opd[2] = vop; uses_vvvv = 1; break;
  case S1_F_RVM_I8: d->nopd = 4; d->opd[0] = regop; d->opd[1] = vop; d->opd[2] = rmop; d->opd[3] = immo; immb = 1; uses_vvvv = 1; break;
  case S1_F_VM_I8: d->nopd = 2; d->opd[0] = rmop; d->opd[1] = immo; immb = 1; break;
  default: return;
  }
  if (vex && !uses_vvvv && vvvv != 0) return;      /* vvvv must be 1111b when unused */
  if (op == S1_OP_JRCXZ && d->p67) op = S1_OP_JECXZ;
  if (d->rel_bits == 8) { if (i >= n) return; d->rel = (int8_t)b[i]; i += 1; }
  else if (d->rel_bits == 32) {
    if (i + 3 >= n) return;
    d->rel = (int32_t)((uint32_t)b[i] | ((uint32_t)b[i + 1] << 8) | ((uint32_t)b[i + 2] << 16) | ((uint32_t)b[i + 3] << 24)); i += 4;
  }
  if (immb) {
    if (i + immb - 1 >= n) return;
    uint64_t v = 0;
    for (k = 0; k < 8; k++) if (k < immb) v |= (uint64_t)b[i + k] << (8 * k);
    i += immb;
    d->has_imm = 1; d->imm_bits = immb * 8;
    if (imm_sx && immb < 8) { uint64_t sb = 1ull << (immb * 8 - 1); if (v & sb) v |= ~((sb << 1) - 1); }
    /* truncate to the operand size the immediate is used at */
    if (t->wrule == S1_W_8 || t->wrule == S1_W_V || t->wrule == S1_W_D64) {
      int eff = (t->wrule == S1_W_D64) ? 64 : opsize;
      if (t->form == S1_F_M_I8 && t->wrule != S1_W_8) eff = 8;            /* shift counts / 8-bit immediates of wider ops */
      if (eff < 64) v &= (1ull << eff) - 1;
    }
    d->imm = v;
  }
  d->op = op;
  d->len = i;
  d->ok = 1;
}

/* the first n bytes are a concatenation of NOP instructions (90, 66 90, 0F 1F /0 with any 66 prefixes) */
static int s1_all_nops(const uint8_t *b, int n) {
  int pos = 0, k;
  for (k = 0; k < 20 && pos < n; k++) {
    struct s1_insn d;
    s1_decode(b + pos, n - pos, &d);
    if (!d.ok || d.op != S1_OP_NOP || d.pf2 || d.pf3 || d.len < 1) return 0;
    pos += d.len;
  }
  return pos == n;
}
#endif
