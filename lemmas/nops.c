/* C13: the NOP writer.  For every padding length the fitting step can ask for (1..19: a gap is
 * always shorter than the instruction that did not fit, and an instruction is at most 20 bytes)
 * the real nop_padding writes exactly k bytes that S1 decodes as a sequence of NOP instructions,
 * returns k and touches nothing behind them.  One run per concrete k (NOP_K): an exhaustive
 * enumeration of the finite domain, not a bound. */
#include "x86dec.h"
#include "vf.h"
#include "al_unity.h"
unsigned g_k;
static void one(void) {
  uint8_t buf[24];
  for (int i = 0; i < 24; i++) buf[i] = 0xcc;
  unsigned r = nop_padding(buf, g_k);
  CHECK(r == g_k, "nop_padding returns the requested length");
  CHECK(s1_all_nops(buf, (int)g_k), "padding bytes decode (S1) as NOP instructions only");
  for (int i = 0; i < 24; i++) if ((unsigned)i >= g_k) CHECK(buf[i] == 0xcc, "nothing written behind the padding");
}
void h_nop_padding(void) {
#ifdef NATIVE_REPLAY
  GHOST_IN(unsigned, g_k); one();
#else
  g_k = NOP_K; one();
  REACH("nop_padding end");
#endif
}
