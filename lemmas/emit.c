/* C06/C13: determinism of the emitter.  For an arbitrary record (every field free, table row in
 * the shard KEY_LO..KEY_HI) the real assemble_asm
 *   - writes the same length and the same bytes into two buffers with different prior contents
 *     (the code of a line does not depend on where it is placed or what was there before);
 *   - run again on the record it has already processed, yields the same length and bytes
 *     (the fitting step assembles twice);
 *   - never writes more than 32 bytes for any record whatsoever (the 20-byte bound under
 *     rec_inv is a separate lemma). */
#include "vf.h"
#include "al_unity.h"
int g_key;
void h_two_run(void) {
  struct instr A, B;
  uint8_t o1[40], o2[40], o3[40];
  ASSUME(A.key >= KEY_LO && A.key <= KEY_HI);
  g_key = A.key;
  ASSUME(A.op_offset >= 0 && A.op_offset <= 16);   /* offsets the encoder ever sets: 0,1,2,3,8 */
  B = A;
  for (int i = 0; i < 40; i++) { o1[i] = 0x11; o3[i] = 0x11; }   /* o2: arbitrary prior contents */
  unsigned n1 = assemble_asm(&A, o1);
  unsigned n2 = assemble_asm(&B, o2);
  CHECK(n1 == n2, "same record, same length at another address");
  CHECK(n1 <= 32, "emitter output is bounded");
  for (int i = 0; i < 32; i++) if ((unsigned)i < n1) CHECK(o1[i] == o2[i], "same record, same bytes whatever the buffer held before");
  for (int i = 0; i < 40; i++) if ((unsigned)i >= n1) CHECK(o1[i] == 0x11, "nothing written behind the returned length");
  unsigned n3 = assemble_asm(&A, o3);
  CHECK(n3 == n1, "second pass over the processed record: same length");
  for (int i = 0; i < 32; i++) if ((unsigned)i < n1) CHECK(o3[i] == o1[i], "second pass over the processed record: same bytes");
  REACH("two-run end");
}
