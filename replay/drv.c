/* Native scenario driver over the REAL library (unity build of /repo's working tree).
 * Reads commands from stdin, one per line:
 *   create N          external buffer of N bytes between two 4096-byte guard zones (N<0: internal)
 *   fill B            fill the external buffer with byte B
 *   opt mov|swap|nobase|sib|all V
 *   chunk C | offset K | debug 0/1
 *   asm TEXT          asm_assemble_str ; TEXT may contain \n \t \xHH escapes
 *   count C TEXT      asm_assemble_string_counting_chunks
 *   file PATH | filecount C PATH | binfile PATH
 *   dump [from]       hex of [from, offset)
 *   guards            verifies both guard zones and bytes >= N are untouched
 *   state             prints offset mode chunk_size opt
 *   destroy
 */
#include "al_unity.h"
#include <stdio.h>
#include <string.h>
#include <stdlib.h>

#define GZ 4096
static uint8_t *area; static int ext_n = -1; static assemblyline_t A;

static void unesc(char *s) {
  char *o = s;
  while (*s) {
    if (*s == '\\' && s[1] == 'n') { *o++ = '\n'; s += 2; }
    else if (*s == '\\' && s[1] == 't') { *o++ = '\t'; s += 2; }
    else if (*s == '\\' && s[1] == 'r') { *o++ = '\r'; s += 2; }
    else if (*s == '\\' && s[1] == 'x') { char h[3] = {s[2], s[3], 0}; *o++ = (char)strtol(h, NULL, 16); s += 4; }
    else *o++ = *s++;
  }
  *o = 0;
}

int main(void) {
  char *line = NULL; size_t cap = 0; ssize_t len;
  while ((len = getline(&line, &cap, stdin)) > 0) {
    if (line[len - 1] == '\n') line[--len] = 0;
    char *arg = strchr(line, ' ');
    if (arg) *arg++ = 0; else arg = line + len;
    if (!strcmp(line, "create")) {
      int n = atoi(arg);
      if (n < 0) { A = asm_create_instance(NULL, 0); ext_n = -1; }
      else {
        size_t tot = (size_t)2 * GZ + (size_t)n + 1; area = malloc(tot); memset(area, 0xAA, tot); memset(area + GZ, 0xCC, (size_t)n);
        ext_n = n; A = asm_create_instance(area + GZ, n);
      }
      printf("create %s\n", A ? "ok" : "NULL");
    } else if (!strcmp(line, "fill")) { memset(area + GZ, atoi(arg), ext_n);
    } else if (!strcmp(line, "opt")) {
      char what[16]; int v; sscanf(arg, "%15s %d", what, &v);
      if (!strcmp(what, "mov")) asm_mov_imm(A, v); else if (!strcmp(what, "swap")) asm_sib_index_base_swap(A, v);
      else if (!strcmp(what, "nobase")) asm_sib_no_base(A, v); else if (!strcmp(what, "sib")) asm_sib(A, v);
      else asm_set_all(A, v);
    } else if (!strcmp(line, "chunk")) { asm_set_chunk_size(A, strtoul(arg, NULL, 0));
    } else if (!strcmp(line, "offset")) { asm_set_offset(A, atoi(arg));
    } else if (!strcmp(line, "debug")) { asm_set_debug(A, atoi(arg));
    } else if (!strcmp(line, "asm")) {
      unesc(arg); int start = asm_get_offset(A);
      int rc = asm_assemble_str(A, arg);
      printf("asm rc=%d start=%d offset=%d\n", rc, start, asm_get_offset(A));
    } else if (!strcmp(line, "count")) {
      char *t = strchr(arg, ' '); *t++ = 0; unesc(t); int dest = -12345;
      int rc = asm_assemble_string_counting_chunks(A, t, atoi(arg), &dest);
      printf("count rc=%d offset=%d count=%d\n", rc, asm_get_offset(A), dest);
    } else if (!strcmp(line, "file")) { int rc = asm_assemble_file(A, arg); printf("file rc=%d offset=%d\n", rc, asm_get_offset(A));
    } else if (!strcmp(line, "filecount")) {
      char *t = strchr(arg, ' '); *t++ = 0; int dest = -12345;
      int rc = asm_assemble_file_counting_chunks(A, t, atoi(arg), &dest);
      printf("filecount rc=%d offset=%d count=%d\n", rc, asm_get_offset(A), dest);
    } else if (!strcmp(line, "binfile")) { int rc = asm_create_bin_file(A, arg); printf("binfile rc=%d\n", rc);
    } else if (!strcmp(line, "dump")) {
      int from = atoi(arg); uint8_t *c = asm_get_code(A); printf("dump");
      for (int i = from; i < asm_get_offset(A); i++) printf(" %02x", c[i]);
      printf("\n");
    } else if (!strcmp(line, "guards")) {
      int bad = 0;
      for (int i = 0; i < GZ; i++) if (area[i] != 0xAA) bad++;
      for (size_t i = (size_t)GZ + ext_n; i < (size_t)2 * GZ + ext_n + 1; i++) if (area[i] != 0xAA) bad++;
      printf(bad ? "GUARD-CORRUPT %d\n" : "GUARD-OK\n", bad);
    } else if (!strcmp(line, "state")) {
      printf("state offset=%d mode=%d chunk=%zu opt=%u len=%d\n", A->offset, (int)A->assembly_mode, A->chunk_size, A->assembly_opt, A->buffer_len);
    } else if (!strcmp(line, "destroy")) { printf("destroy rc=%d\n", asm_destroy_instance(A)); A = NULL;
    } else if (line[0]) { printf("?? %s\n", line); }
    fflush(stdout);
  }
  return 0;
}
