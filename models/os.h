/* S5 - assumed contracts of the operating-system and stdio calls the library makes, written as
 * nondeterministic models: EVERY call may fail (so every sequence of faults is covered, not only
 * single ones).  Linux semantics assumed:
 *   mmap(anonymous)   : MAP_FAILED, or a fresh zero-filled region of len bytes
 *   mmap(file)        : MAP_FAILED (always for len == 0), or a fresh region of roundup(len, 4096)
 *                       bytes holding the file's bytes followed by zeros up to the page end
 *   read(regular file): -1, 0 (premature end of file) or the number of bytes asked for
 *   mremap(MAYMOVE)   : MAP_FAILED with the old region untouched, or a fresh region of new_size
 *                       bytes whose first old_size bytes equal the old ones; the old region is gone
 *   munmap/close      : 0 or -1 ; open: -1 or a descriptor ; fstat: -1 or 0 with st_size = file size
 *   fopen             : NULL or a stream ; fwrite: any count <= nmemb ; fclose: 0 or EOF
 * Ghosts record what was asked for. */
#ifndef MODELS_OS_H
#define MODELS_OS_H
#include <sys/mman.h>
#include <sys/stat.h>
#include <stdio.h>
#define OS_PAGE 4096
_Bool nondet_bool(void);
size_t g_file_len;               /* size of the file behind every descriptor */
size_t g_probe;                  /* ghost index: one arbitrary byte position followed across mremap */
uint8_t g_probe_val; _Bool g_probe_set;
void *g_munmap_ptr; size_t g_munmap_len; unsigned g_munmap_calls;
const void *g_fwrite_ptr; size_t g_fwrite_size, g_fwrite_n, g_fwrite_ret; unsigned g_fwrite_calls;
int g_fclose_ret = -2; int g_fopen_ok; int g_mremap_ok;
size_t g_map_size;               /* size of the last mapping */
size_t g_zero_idx;               /* ghost index: one arbitrary position of an anonymous mapping, zero like all others */
size_t g_read_total;             /* bytes delivered by read() so far */
int g_fault;                     /* set when a model injects a failure */
#define FAULT() (nondet_bool() ? (g_fault = 1, 1) : 0)

void *mmap(void *addr, size_t len, int prot, int flags, int fd, off_t off) {
  if (len == 0) return MAP_FAILED;          /* EINVAL: not an injected fault */
  if (FAULT()) return MAP_FAILED;
  if (flags & MAP_ANONYMOUS) {
    /* zero-filled: modelled for the last byte and for one arbitrary ghost position (instead of a quantifier) */
    uint8_t *p = malloc(len);
    __CPROVER_assume(p != NULL);
    p[len - 1] = 0;
#ifdef OS_MODEL_ZERO_GHOST
    if (g_zero_idx < len) p[g_zero_idx] = 0;
#endif
    g_map_size = len;
    return p;
  }
  size_t sz = ((len + OS_PAGE - 1) / OS_PAGE) * OS_PAGE;
  char *p = malloc(sz);
  __CPROVER_assume(p != NULL);
  g_map_size = sz;
  /* zero tail of the last page: stated for one arbitrary index (ghost index instead of a quantifier) */
  if (len < sz) p[len] = 0;
  return p;
}
void *mremap(void *old, size_t old_size, size_t new_size, int flags, ...) {
  if (FAULT()) { g_mremap_ok = 0; return MAP_FAILED; }
  uint8_t *np = malloc(new_size);
  __CPROVER_assume(np != NULL);
  /* contents preserved: followed for the one arbitrary ghost position g_probe */
  if (g_probe < old_size && g_probe < new_size) { np[g_probe] = ((uint8_t *)old)[g_probe]; }
  free(old);                      /* the old region is gone: a stale pointer is a use after free */
  g_mremap_ok = 1;
  return np;
}
int munmap(void *p, size_t len) { g_munmap_ptr = p; g_munmap_len = len; g_munmap_calls++; free(p); return FAULT() ? -1 : 0; }
/* open is variadic (DFCC mis-handles write-set checks in variadic bodies): the harness maps open(p, f, m) to vf_open(p) */
int vf_open(const char *path) { if (FAULT()) return -1; return 3; }
int fstat(int fd, struct stat *st) { if (FAULT()) return -1; st->st_size = (off_t)g_file_len; return 0; }
/* read on a regular file: fails, hits a premature end of file (the file shrank), or delivers the bytes asked for
 * (short reads of regular files are not modelled; the library's loop handles them).  The bytes are arbitrary. */
ssize_t read(int fd, void *buf, size_t n) {
  if (FAULT()) return nondet_bool() ? -1 : 0;
  if (n > 0) { size_t k; __CPROVER_assume(k < n); char c; ((char *)buf)[k] = c; }   /* one arbitrary byte of the range: any content */
  g_read_total += n;
  return (ssize_t)n;
}
int close(int fd) { return nondet_bool() ? -1 : 0; }   /* result ignored by the library: not counted as a fault */
static FILE g_stream;
FILE *fopen(const char *path, const char *mode) { if (FAULT()) { g_fopen_ok = 0; return NULL; } g_fopen_ok = 1; return &g_stream; }
size_t fwrite(const void *ptr, size_t size, size_t n, FILE *f) {
  g_fwrite_ptr = ptr; g_fwrite_size = size; g_fwrite_n = n; g_fwrite_calls++;
  size_t r; __CPROVER_assume(r <= n); g_fwrite_ret = r; return r;
}
int fclose(FILE *f) { g_fclose_ret = nondet_bool() ? EOF : 0; return g_fclose_ret; }
void perror(const char *s) { }
#endif
