from vf import Lemma
import native
R = lambda f: "%s/%s__c" % (f, f)
MF = ["--malloc-may-fail", "--malloc-fail-null"]
WS = "__CPROVER_contracts_write_set_check_assignment.0:300,debug_without_chunksize.0:22,asm_mmap_file.0:3"


def lemmas():
    return [
        Lemma(name="C17.create_destroy", src="os.c", entry="h_create", props=["C17", "C12", "C15"], timeout=600, extra=MF, object_bits=10,
              functions=["asm_create_instance", "asm_destroy_instance", "asm_build_index_tables"],
              desc="create/destroy with malloc, mmap and munmap failing nondeterministically: NULL or the documented initial state (offset 0, SMART/NASM/NASM, plain mode), destroy always succeeds"),
        Lemma(name="C08.check_len_or_resize.internal", src="os.c", entry="h_grow", props=["C08", "C17"], timeout=600, object_bits=10, functions=["check_len_or_resize"],
              desc="growth of the library-managed buffer over the assumed mremap contract (may fail, may move): success => room for 20 bytes, length grown by the quantum, an arbitrary earlier byte preserved; failure => buffer, length and contents intact"),
        Lemma(name="C08.assemble.internal", src="os.c", entry="h_assemble_internal", props=["C08", "C17"], timeout=900, object_bits=10, replace=[R("assemble_asm")], unwindset=WS,
              functions=["assemble", "check_len_or_resize"],
              desc="plain step on the library-managed buffer (buffer length symbolic): writes into the re-read buffer pointer after growth (a stale pointer would be a use-after-free), earlier bytes preserved, fails only when mremap fails"),
        Lemma(name="C08.assemble_counting_chunks.internal", src="os.c", entry="h_counting_internal", props=["C08", "C17"], timeout=900, replace=[R("assemble_asm")], unwindset=WS,
              functions=["assemble_counting_chunks", "check_len_or_resize"],
              desc="counting step on the library-managed buffer (buffer length and chunk size symbolic): same obligations as the plain step"),
    ] + [
        Lemma(name="C08.assemble_with_chunk_fitting.internal.c%d" % c, src="os.c", entry="h_fitting_internal", props=["C08", "C17"], timeout=2400, replace=[R("assemble_asm"), R("nop_padding")],
              defs={"FITC": str(c)}, unwindset=WS + ",assemble_with_chunk_fitting.0:3", functions=["assemble_with_chunk_fitting", "check_len_or_resize"], bounded="chunk size enumerated (c=%d)" % c, tier="thorough",
              desc="fitting step on the library-managed buffer: padding and the re-assembled instruction are written through the buffer pointer re-read after each room check (a pointer kept across a growth is a use after free), earlier bytes preserved, fails only when mremap fails")
        for c in (16, 13)] + [
        Lemma(name="C19.asm_assemble_file", src="os.c", entry="h_assemble_file", props=["C19", "C17"], timeout=600, object_bits=10, unwindset=WS,
              replace=["asm_assemble_str/asm_assemble_str__f", "asm_assemble_string_counting_chunks/asm_assemble_string_counting_chunks__f"], functions=["asm_assemble_file", "asm_mmap_file"],
              desc="file entry point over the assumed open/fstat/mmap/read/munmap contracts (each may fail), file size symbolic from 0 to three pages (page multiples included): the text handed to asm_assemble_str is a NUL-terminated string inside the mapping, asm_assemble_str is the entry point called (once), the mapping is released once with its length, the result is that of the in-memory call unless an OS call failed"),
        Lemma(name="C19.asm_assemble_file_counting_chunks", src="os.c", entry="h_assemble_file_counting", props=["C19", "C17"], timeout=600, object_bits=10, unwindset=WS,
              replace=["asm_assemble_str/asm_assemble_str__f", "asm_assemble_string_counting_chunks/asm_assemble_string_counting_chunks__f"], functions=["asm_assemble_file_counting_chunks", "asm_mmap_file"],
              desc="counting file entry point, same obligations"),
        Lemma(name="C19.asm_create_bin_file", src="os.c", entry="h_bin_file", props=["C19", "C17"], timeout=600, object_bits=10, functions=["asm_create_bin_file"],
              desc="binary output over the assumed fopen/fwrite/fclose contracts: exactly buffer[0, offset) is handed to fwrite; EXIT_SUCCESS only if the file was created, every byte written and the stream closed without error"),
    ]
