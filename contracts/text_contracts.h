/* Contracts of the text half (C09 safety, C10 rejection, C16 spelling). */
#ifndef TEXT_CONTRACTS_H
#define TEXT_CONTRACTS_H
#ifndef NATIVE_REPLAY
/* ghost: the input line is g_in[0..g_len], g_in[g_len] == 0, no NUL before */
const char *g_in; int g_len;
int g_bad; unsigned char g_badc;   /* ghost position and the byte at it (tied in the preconditions: one array read instead of one per clause) */
#ifndef LINE_MAX_OBJ
#define LINE_MAX_OBJ 10000   /* CBMC object-size choice only */
#endif

/* filter: reads only inside the NUL-terminated input, writes only filter_str[0..99], leaves it
 * NUL-terminated (it arrives zeroed), returns a position inside the input.
 * FILTER_CONTRACT(VALID_IN, VALID_OUT): enforcement form with is_fresh, usage form with r_ok / rw_ok. */
int g_q; char g_qc;   /* ghost index: one arbitrary position of the line (instead of a quantifier), and the character at it */
#define FILTER_PRE(VALID_IN, VALID_OUT) \
  __CPROVER_requires(g_len >= 0 && g_len <= LINE_MAX_OBJ && VALID_IN(unfiltered_str, g_len + 1) && g_in == unfiltered_str) \
  __CPROVER_requires(unfiltered_str[g_len] == '\0') \
  __CPROVER_requires(VALID_OUT(filter_str, FILTERED_STR_LEN) && filter_str[FILTERED_STR_LEN - 1] == '\0' && filter_str[0] == '\0') \
  __CPROVER_requires(g_bad >= 0 && g_bad <= g_len && g_q >= 0 && g_q <= g_len) \
  __CPROVER_assigns(__CPROVER_object_whole(filter_str)) \
  __CPROVER_ensures(__CPROVER_return_value == ASM_ERROR || (__CPROVER_return_value >= 0 && __CPROVER_return_value <= g_len)) \
  __CPROVER_ensures(filter_str[FILTERED_STR_LEN - 1] == '\0')
/* A (C10): the part of the line the filter has scanned (up to the returned position) holds no byte above 0x7e - \
 * stated for one arbitrary position g_bad (ghost index instead of a quantifier); hence such a byte before the \
 * line/comment terminator makes the filter return the error */
#define FILTER_POST_A \
  __CPROVER_ensures(__CPROVER_return_value >= 0 && g_bad < __CPROVER_return_value ==> (unsigned char)unfiltered_str[g_bad] <= 0x7e)
/* B: the scanned part holds no line end, comment character or NUL (arbitrary position g_q) */
#define FILTER_POST_B \
  __CPROVER_requires(g_qc == unfiltered_str[g_q])   /* the ghost character is the one at the ghost position */ \
  __CPROVER_ensures(__CPROVER_return_value >= 0 && g_q < __CPROVER_return_value ==> \
      (g_qc != '\n' && g_qc != '\r' && g_qc != '\0' && g_qc != ';' && g_qc != '%'))
/* C: the kept text is empty or starts at the first letter-range character of the line */
#define FILTER_POST_C \
  __CPROVER_ensures(__CPROVER_return_value >= 0 ==> (filter_str[0] == '\0' || (filter_str[0] >= 'A' && filter_str[0] <= 'z')))
/* D: the filter stops only at a line end / comment character / NUL, or when the buffer is full (99 kept characters) */
#define FILTER_POST_D \
  __CPROVER_ensures(__CPROVER_return_value >= 0 ==> \
      (unfiltered_str[__CPROVER_return_value] == '\n' || unfiltered_str[__CPROVER_return_value] == '\r' || unfiltered_str[__CPROVER_return_value] == '\0' || \
       unfiltered_str[__CPROVER_return_value] == ';' || unfiltered_str[__CPROVER_return_value] == '%' || filter_str[FILTERED_STR_LEN - 2] != '\0'))
/* enforcement forms: the postcondition groups are proved in separate runs (each with the loop
 * invariant it needs; the conjunction in one run exhausts memory); usage form: all of them */
int filter_assembly_str_fsa__c(const char unfiltered_str[], char filter_str[]) FILTER_PRE(__CPROVER_is_fresh, __CPROVER_is_fresh) FILTER_POST_A;
int filter_assembly_str_fsa__cB(const char unfiltered_str[], char filter_str[]) FILTER_PRE(__CPROVER_is_fresh, __CPROVER_is_fresh) FILTER_POST_B;
int filter_assembly_str_fsa__cC(const char unfiltered_str[], char filter_str[]) FILTER_PRE(__CPROVER_is_fresh, __CPROVER_is_fresh) FILTER_POST_C;
int filter_assembly_str_fsa__cD(const char unfiltered_str[], char filter_str[]) FILTER_PRE(__CPROVER_is_fresh, __CPROVER_is_fresh) FILTER_POST_D;
int filter_assembly_str_fsa__u(const char unfiltered_str[], char filter_str[]) FILTER_PRE(__CPROVER_r_ok, __CPROVER_rw_ok) FILTER_POST_A FILTER_POST_B FILTER_POST_C FILTER_POST_D;
/* usage form without group A (a caller that does not need the non-ASCII clause: fewer symbolic reads) */
int filter_assembly_str_fsa__uBC(const char unfiltered_str[], char filter_str[]) FILTER_PRE(__CPROVER_r_ok, __CPROVER_rw_ok) FILTER_POST_B FILTER_POST_C;
#endif
#ifndef NATIVE_REPLAY
/* ghost: base of the 100-byte filtered line buffer; terminated means g_buf[99] == 0 */
char *g_buf;
#define IN_FBUF(p) (__CPROVER_same_object((p), g_buf) && __CPROVER_r_ok((p), 1) && (p) >= g_buf && (p) <= g_buf + (FILTERED_STR_LEN - 1))
#define FBUF_OK (__CPROVER_rw_ok(g_buf, FILTERED_STR_LEN) && g_buf[FILTERED_STR_LEN - 1] == '\0')

/* keyword scanner (recursive on "far"): touches only the line buffer (keywords are blanked) and
 * the keyword bits; the buffer stays terminated */
void check_for_keyword__c(struct instr *instr_buffer, char *all_opd, int opd_pos)
  __CPROVER_requires(__CPROVER_rw_ok(instr_buffer, sizeof(struct instr)) && FBUF_OK && IN_FBUF(all_opd))
  __CPROVER_assigns(instr_buffer->keyword.is_keyword, __CPROVER_object_whole(g_buf))
  __CPROVER_ensures(g_buf[FILTERED_STR_LEN - 1] == '\0');
#endif
#ifndef NATIVE_REPLAY
/* record shape the tokenizer maintains: strings stay inside their arrays */
#define OPD_STR_OK(I) ((I)->opd[0].str[MAX_REG_LEN-1] == 0 && (I)->opd[1].str[MAX_REG_LEN-1] == 0 && (I)->opd[2].str[MAX_REG_LEN-1] == 0 && (I)->opd[3].str[MAX_REG_LEN-1] == 0 && \
                       (I)->opd[0].sib[MAX_REG_LEN-1] == 0 && (I)->opd[1].sib[MAX_REG_LEN-1] == 0 && (I)->opd[2].sib[MAX_REG_LEN-1] == 0 && (I)->opd[3].sib[MAX_REG_LEN-1] == 0 && \
                       (I)->instruction[INSTRUCTION_CHAR_LEN-1] == 0)
#define TYPE_OK(t) ((t) == 0 || (t) == 'm' || (t) == 'r' || (t) == 'v' || (t) == 'y' || (t) == 'i' || (t) == 'e')
#define OPD_TYPES_OK(I) (TYPE_OK((I)->opd[0].type) && TYPE_OK((I)->opd[1].type) && TYPE_OK((I)->opd[2].type) && TYPE_OK((I)->opd[3].type))
#define TOK_PRE(I, p) __CPROVER_requires(__CPROVER_rw_ok(I, sizeof(struct instr)) && OPD_STR_OK(I) && OPD_TYPES_OK(I) && FBUF_OK && IN_FBUF(p))
#define TOK_FRAME(I) __CPROVER_assigns(__CPROVER_object_whole(I), __CPROVER_object_whole(g_buf))
#define TOK_POST(I) __CPROVER_ensures(OPD_STR_OK(I)) __CPROVER_ensures(OPD_TYPES_OK(I)) __CPROVER_ensures(g_buf[FILTERED_STR_LEN - 1] == 0)

char get_operand_type__c(const char *operand)
  __CPROVER_requires(FBUF_OK && IN_FBUF(operand))
  __CPROVER_assigns()
  __CPROVER_ensures(__CPROVER_return_value == 'm' || __CPROVER_return_value == 'r' || __CPROVER_return_value == 'v' ||
                    __CPROVER_return_value == 'y' || __CPROVER_return_value == 'i' || __CPROVER_return_value == 'e');

/* leaf scanners: contracts established by the plain-harness lemmas of lemmas/safety.c on an
 * arbitrary buffer content and offset (same preconditions) */
void imm_tok__c(struct instr *instr_buffer, char *imme)
  TOK_PRE(instr_buffer, imme) TOK_FRAME(instr_buffer) TOK_POST(instr_buffer);
void get_reg_str__c(char *opd_str, char *reg)
  __CPROVER_requires(FBUF_OK && IN_FBUF(opd_str) && __CPROVER_rw_ok(reg, MAX_REG_LEN) && reg[MAX_REG_LEN-1] == 0)
  __CPROVER_assigns(__CPROVER_object_upto(reg, MAX_REG_LEN - 1));
int mem_tok__c(struct instr *instr_buffer, char *mem, int opd_pos)
  TOK_PRE(instr_buffer, mem) __CPROVER_requires(opd_pos >= 0 && opd_pos < NUM_OF_OPD)
  TOK_FRAME(instr_buffer) TOK_POST(instr_buffer)
  __CPROVER_ensures(__CPROVER_return_value == EXIT_SUCCESS || __CPROVER_return_value == EXIT_FAILURE);

int check_operand_type__c(struct instr *instr_buffer, char *all_opd, int opd_pos, char *saved_opd)
  TOK_PRE(instr_buffer, all_opd) __CPROVER_requires(opd_pos >= 0 && opd_pos < NUM_OF_OPD)
  __CPROVER_requires(saved_opd == NULL || IN_FBUF(saved_opd))
  TOK_FRAME(instr_buffer) TOK_POST(instr_buffer)
  __CPROVER_ensures(__CPROVER_return_value == EXIT_SUCCESS || __CPROVER_return_value == EXIT_FAILURE);

int operand_tok__c(struct instr *instr_buffer, char *opds, int opd_pos)
  TOK_PRE(instr_buffer, opds) __CPROVER_requires(opd_pos >= 0 && opd_pos < NUM_OF_OPD && opds[0] != '\0')
  TOK_FRAME(instr_buffer) TOK_POST(instr_buffer)
  __CPROVER_ensures(__CPROVER_return_value == EXIT_SUCCESS || __CPROVER_return_value == EXIT_FAILURE);

int instr_tok__c(struct instr *instr_buffer, char *comp_instr)
  TOK_PRE(instr_buffer, comp_instr) __CPROVER_requires(comp_instr == g_buf && comp_instr[0] >= 'A' && comp_instr[0] <= 'z')   /* what the filter leaves at the start of a non-empty line */
  TOK_FRAME(instr_buffer) TOK_POST(instr_buffer)
  __CPROVER_ensures(__CPROVER_return_value == EXIT_SUCCESS || __CPROVER_return_value == EXIT_FAILURE);
#endif
#ifndef NATIVE_REPLAY
/* what the tokenizer leaves in the record, as far as the encoder's output length depends on it:
 * memory flags only with an operand of type 'm', the immediate flag only with one of type 'i',
 * operands are filled from slot 0 upwards (proved for instr_tok/operand_tok in safety.c: TOK_REL) */
#define HAS_T(I, t) ((I)->opd[0].type == (t) || (I)->opd[1].type == (t) || (I)->opd[2].type == (t) || (I)->opd[3].type == (t))
/* register strings only for register/memory operands, index strings only for memory operands */
#define STR_REL1(I, k) ((((I)->opd[k].type == 'r' || (I)->opd[k].type == 'v' || (I)->opd[k].type == 'y' || (I)->opd[k].type == 'm') || (I)->opd[k].str[0] == 0) && \
                        ((I)->opd[k].type == 'm' || (I)->opd[k].sib[0] == 0))
#define STR_REL(I) (STR_REL1(I, 0) && STR_REL1(I, 1) && STR_REL1(I, 2) && STR_REL1(I, 3))
/* operands are filled from slot 0 upwards and nothing follows an immediate */
#define CONTIG(I) ((((I)->opd[0].type != 0 && (I)->opd[0].type != 'i') || (I)->opd[1].type == 0) && \
                   (((I)->opd[1].type != 0 && (I)->opd[1].type != 'i') || (I)->opd[2].type == 0) && \
                   (((I)->opd[2].type != 0 && (I)->opd[2].type != 'i') || (I)->opd[3].type == 0))
/* with a single memory operand mem_tok ran once: a [constant] operand has no displacement */
#define N_T(I, t) (((I)->opd[0].type == (t)) + ((I)->opd[1].type == (t)) + ((I)->opd[2].type == (t)) + ((I)->opd[3].type == (t)))
#define ONE_M(I) ((I)->mem_index < NUM_OF_OPD && (N_T(I, 'm') != 1 || !(I)->mem_value || ((I)->mem_offset == 0 && (I)->mod_disp == 0 && (I)->opd[(I)->mem_index].sib[0] == 0)))
#define TOK_REL(I) (STR_REL(I) && CONTIG(I) && ONE_M(I) && (!(I)->mem_disp || HAS_T(I, 'm')) && (!(I)->mem_value || (I)->mem_disp) && (!(I)->imm || HAS_T(I, 'i')) && \
                    (I)->mem_index < NUM_OF_OPD && (!(I)->mem_disp || (I)->opd[(I)->mem_index].type == 'm') && \
                    !(I)->zero_byte && !(I)->is_sib_const && !(I)->is_sib && !(I)->no_base && !(I)->reduced_imm && \
                    !(I)->hex.is_66H && !(I)->hex.is_67H && (I)->op_offset == 0 && (I)->rd_offset == 0)

/* table look-up: a row is returned only if it lists the operand format */
/* one contract text, two validity predicates: __c (r_ok) is the form used at call sites inside other
 * proofs (the pointer already exists there), __e (is_fresh) the form the real body is enforced against */
/* DFCC makes every object of static lifetime nondeterministic at the start of a proof, the two
 * first-letter index tables included.  In the program they are zero-initialised (C11 6.7.9p10) and
 * then filled by asm_build_index_tables on every asm_create_instance; harnesses that call the real
 * asm_build_index_tables restore the zero initialisation first. */
#define STATIC_ZERO_INIT_INDEX_TABLES() do { for (int k_ = 0; k_ < LETTERS_IN_ALPHABET; k_++) { instr_table_index[k_] = 0; opd_format_table_index[k_] = 0; } } while (0)
/* what the look-up needs of the index table: the entry of the mnemonic's first letter is a row number
 * (0 for a letter without mnemonic: the scan then starts at the top) */
#define IDX_ENTRY_OK(c) (!((c) >= 'a' && (c) <= 'z') || (instr_table_index[(c) - 'a'] >= 0 && instr_table_index[(c) - 'a'] <= 317))
#define STREQ14(a, b) ((a)[0] == (b)[0] && ((a)[0] == 0 || ((a)[1] == (b)[1] && ((a)[1] == 0 || ((a)[2] == (b)[2] && ((a)[2] == 0 || ((a)[3] == (b)[3] && ((a)[3] == 0 || ((a)[4] == (b)[4] && ((a)[4] == 0 || ((a)[5] == (b)[5] && ((a)[5] == 0 || ((a)[6] == (b)[6] && ((a)[6] == 0 || ((a)[7] == (b)[7] && ((a)[7] == 0 || ((a)[8] == (b)[8] && ((a)[8] == 0 || ((a)[9] == (b)[9] && ((a)[9] == 0 || ((a)[10] == (b)[10] && ((a)[10] == 0 || ((a)[11] == (b)[11] && ((a)[11] == 0 || ((a)[12] == (b)[12] && ((a)[12] == 0 || ((a)[13] == (b)[13] && (a)[13] == 0)))))))))))))))))))))))))))
/* ghost: second argument of the last string comparison that found equality (recorded by strcmp__rec) */
const char *g_eq_s2;
#define ROW_OF(p) ((long)(__CPROVER_POINTER_OFFSET(p) / sizeof(struct instr_table)))
#define STR_TO_INSTR_KEY_CORE(VALID) \
  __CPROVER_requires(VALID(instruction, INSTRUCTION_CHAR_LEN) && instruction[INSTRUCTION_CHAR_LEN - 1] == 0) \
  __CPROVER_requires(IDX_ENTRY_OK(instruction[0])) \
  __CPROVER_ensures(__CPROVER_return_value == INSTR_ERROR || \
      (__CPROVER_return_value >= 3 && __CPROVER_return_value <= 317 && \
       (INSTR_TABLE[__CPROVER_return_value].opd_format[0] == (int)opd_layout || INSTR_TABLE[__CPROVER_return_value].opd_format[1] == (int)opd_layout)))
/* usage form: what callers' proofs need (no ghost in the frame) */
int str_to_instr_key__c(char *instruction, operand_format opd_layout) STR_TO_INSTR_KEY_CORE(__CPROVER_r_ok) __CPROVER_assigns();
/* enforcement form: additionally, the row belongs to the group of a mnemonic-bearing row whose name is
 * exactly the text looked up: an unknown mnemonic is never accepted, and no row of another mnemonic is returned */
int str_to_instr_key__e(char *instruction, operand_format opd_layout) STR_TO_INSTR_KEY_CORE(__CPROVER_is_fresh)
  __CPROVER_assigns(g_eq_s2)
  __CPROVER_ensures(__CPROVER_return_value == INSTR_ERROR ||
      (__CPROVER_same_object(g_eq_s2, INSTR_TABLE) && ROW_OF(g_eq_s2) >= 3 && ROW_OF(g_eq_s2) <= 317 &&
       g_eq_s2 == INSTR_TABLE[ROW_OF(g_eq_s2)].instr_name &&
       INSTR_TABLE[ROW_OF(g_eq_s2)].name == INSTR_TABLE[__CPROVER_return_value].name &&
       STREQ14(instruction, INSTR_TABLE[ROW_OF(g_eq_s2)].instr_name)));

/* register look-up: none, an error marker, or mode bits | number of one register class */
#define REGCODE_OK(v) ((v) <= 0x7ff && ((v) == reg_none || ((v) & reg_error) || \
   ((((v) & MODE_MASK) == reg8 || ((v) & MODE_MASK) == noext8 || ((v) & MODE_MASK) == reg16 || ((v) & MODE_MASK) == reg32 || ((v) & MODE_MASK) == reg64) && ((v) & MODE_CLEAR) <= 7) || \
   ((((v) & MODE_MASK) == ext8 || ((v) & MODE_MASK) == ext16 || ((v) & MODE_MASK) == ext32 || ((v) & MODE_MASK) == ext64) && ((v) & MODE_CLEAR) >= 8 && ((v) & MODE_CLEAR) <= 15) || \
   (((v) & MODE_MASK) == mmx64 && ((v) & MODE_CLEAR) >= 16 && ((v) & MODE_CLEAR) <= 31)))
asm_reg str_to_reg__c(char *reg)
  __CPROVER_requires(__CPROVER_r_ok(reg, MAX_REG_LEN) && reg[MAX_REG_LEN - 1] == 0)
  __CPROVER_assigns()
  __CPROVER_ensures(REGCODE_OK((unsigned)__CPROVER_return_value))
  __CPROVER_ensures(reg[0] == '\0' ==> __CPROVER_return_value == reg_none);

/* the tokenizer as seen by line_to_instr: instr_tok__r2 in tok_contracts.h (proved through the chain there) */
#endif
#ifndef NATIVE_REPLAY
/* operand-format look-up: the format returned names exactly the operand-type string (proved for
 * every type tuple by the exhaustive lemma C10.fmt_lookup); here only what the length bound needs */
#define FMT_HAS_M(f) ((f) == m || (f) == mr || (f) == rm || (f) == mi || (f) == rmi || (f) == rrm || (f) == rmr || (f) == vm || (f) == mv || \
                      (f) == ym || (f) == my || (f) == mri || (f) == mrr || (f) == vvm || (f) == yym || (f) == vvmi || (f) == yymi)
#define FMT_HAS_I(f) ((f) == ri || (f) == mi || (f) == rri || (f) == rmi || (f) == vi || (f) == mri || (f) == vvvi || (f) == vvmi || (f) == yyyi || (f) == yymi)
#define STR_HAS(s, c) ((s)[0] == (c) || ((s)[0] != 0 && ((s)[1] == (c) || ((s)[1] != 0 && ((s)[2] == (c) || ((s)[2] != 0 && (s)[3] == (c)))))))
#define FMT_EXACT(f, s) ( \
   ((f) == n && ((s)[0] == 0 || ((s)[0] == 'i' && (s)[1] == 0))) || \
   ((f) == m && (s)[0] == 'm' && (s)[1] == 0) || \
   ((f) == mi && (s)[0] == 'm' && (s)[1] == 'i' && (s)[2] == 0) || \
   ((f) == mr && (s)[0] == 'm' && (s)[1] == 'r' && (s)[2] == 0) || \
   ((f) == mri && (s)[0] == 'm' && (s)[1] == 'r' && (s)[2] == 'i' && (s)[3] == 0) || \
   ((f) == mrr && (s)[0] == 'm' && (s)[1] == 'r' && (s)[2] == 'r' && (s)[3] == 0) || \
   ((f) == mv && (s)[0] == 'm' && (s)[1] == 'v' && (s)[2] == 0) || \
   ((f) == my && (s)[0] == 'm' && (s)[1] == 'y' && (s)[2] == 0) || \
   ((f) == r && (s)[0] == 'r' && (s)[1] == 0) || \
   ((f) == ri && (s)[0] == 'r' && (s)[1] == 'i' && (s)[2] == 0) || \
   ((f) == rm && (s)[0] == 'r' && (s)[1] == 'm' && (s)[2] == 0) || \
   ((f) == rmi && (s)[0] == 'r' && (s)[1] == 'm' && (s)[2] == 'i' && (s)[3] == 0) || \
   ((f) == rmr && (s)[0] == 'r' && (s)[1] == 'm' && (s)[2] == 'r' && (s)[3] == 0) || \
   ((f) == rr && (s)[0] == 'r' && (s)[1] == 'r' && (s)[2] == 0) || \
   ((f) == rri && (s)[0] == 'r' && (s)[1] == 'r' && (s)[2] == 'i' && (s)[3] == 0) || \
   ((f) == rrm && (s)[0] == 'r' && (s)[1] == 'r' && (s)[2] == 'm' && (s)[3] == 0) || \
   ((f) == rrr && (s)[0] == 'r' && (s)[1] == 'r' && (s)[2] == 'r' && (s)[3] == 0) || \
   ((f) == rv && (s)[0] == 'r' && (s)[1] == 'v' && (s)[2] == 0) || \
   ((f) == vi && (s)[0] == 'v' && (s)[1] == 'i' && (s)[2] == 0) || \
   ((f) == vr && (s)[0] == 'v' && (s)[1] == 'r' && (s)[2] == 0) || \
   ((f) == vm && (s)[0] == 'v' && (s)[1] == 'm' && (s)[2] == 0) || \
   ((f) == vv && (s)[0] == 'v' && (s)[1] == 'v' && (s)[2] == 0) || \
   ((f) == vvm && (s)[0] == 'v' && (s)[1] == 'v' && (s)[2] == 'm' && (s)[3] == 0) || \
   ((f) == vvmi && (s)[0] == 'v' && (s)[1] == 'v' && (s)[2] == 'm' && (s)[3] == 'i' && (s)[4] == 0) || \
   ((f) == vvv && (s)[0] == 'v' && (s)[1] == 'v' && (s)[2] == 'v' && (s)[3] == 0) || \
   ((f) == vvvi && (s)[0] == 'v' && (s)[1] == 'v' && (s)[2] == 'v' && (s)[3] == 'i' && (s)[4] == 0) || \
   ((f) == ym && (s)[0] == 'y' && (s)[1] == 'm' && (s)[2] == 0) || \
   ((f) == yy && (s)[0] == 'y' && (s)[1] == 'y' && (s)[2] == 0) || \
   ((f) == yym && (s)[0] == 'y' && (s)[1] == 'y' && (s)[2] == 'm' && (s)[3] == 0) || \
   ((f) == yymi && (s)[0] == 'y' && (s)[1] == 'y' && (s)[2] == 'm' && (s)[3] == 'i' && (s)[4] == 0) || \
   ((f) == yyy && (s)[0] == 'y' && (s)[1] == 'y' && (s)[2] == 'y' && (s)[3] == 0) || \
   ((f) == yyyi && (s)[0] == 'y' && (s)[1] == 'y' && (s)[2] == 'y' && (s)[3] == 'i' && (s)[4] == 0))
operand_format get_opd_format__c(char *opd_en)
  __CPROVER_requires(__CPROVER_r_ok(opd_en, 5) && opd_en[4] == 0)
  __CPROVER_assigns()
  __CPROVER_ensures(__CPROVER_return_value == opd_error || FMT_EXACT(__CPROVER_return_value, opd_en));
#endif
#ifndef NATIVE_REPLAY
/* abstraction of strcmp for look-up lemmas whose claim does not depend on the comparison result */
int strcmp__any(const char *s1, const char *s2)
  __CPROVER_requires(__CPROVER_r_ok(s1, 1) && __CPROVER_r_ok(s2, 1))
  __CPROVER_assigns();
/* assumed contract of strcmp on strings shorter than 14 characters (ISO C 7.24.4.2): zero exactly for
 * equal strings; the ghost records the second argument of a comparison that found equality */
int strcmp__rec(const char *s1, const char *s2)
  __CPROVER_requires(__CPROVER_r_ok(s1, 1) && __CPROVER_r_ok(s2, 1))
  __CPROVER_assigns(g_eq_s2)
  __CPROVER_ensures((__CPROVER_return_value == 0) == (STREQ14(s1, s2) != 0))
  __CPROVER_ensures(__CPROVER_return_value != 0 || g_eq_s2 == s2)
  __CPROVER_ensures(__CPROVER_return_value == 0 || g_eq_s2 == __CPROVER_old(g_eq_s2));
#endif
#endif /* TEXT_CONTRACTS_H */
