/* Shared harness vocabulary.  CBMC_RUN: symbolic run under cbmc.  NATIVE_REPLAY: the same
 * harness compiled with gcc, ghosts read from argv ("name=value"), assertions evaluated on
 * the real code's real output. */
#ifndef VF_H
#define VF_H
#include <stdint.h>
#include <stddef.h>

#ifdef NATIVE_REPLAY
#include <stdio.h>
#include <stdlib.h>
#include <string.h>
extern int vf_argc; extern char **vf_argv; extern int vf_failed;
static inline unsigned long long vf_ghost(const char *name, int *found) {
  size_t n = strlen(name);
  for (int i = 1; i < vf_argc; i++)
    if (!strncmp(vf_argv[i], name, n) && vf_argv[i][n] == '=') { *found = 1; return strtoull(vf_argv[i] + n + 1, NULL, 0); }
  *found = 0; return 0;
}
#define GHOST_IN(type, var) do { int f_; var = (type)vf_ghost(#var, &f_); if (!f_) { fprintf(stderr, "replay: ghost %s missing\n", #var); exit(3);} } while (0)
#define ASSUME(c) do { if (!(c)) { printf("ASSUME-FALSE %s\n", #c); exit(77); } } while (0)
#define CHECK(c, msg) do { if (!(c)) { printf("VIOLATED %s\n", msg); vf_failed = 1; } else printf("HOLDS %s\n", msg); } while (0)
#define REACH(msg) do { } while (0)
#else
#define GHOST_IN(type, var) do { type nd_; var = nd_; } while (0)
#define ASSUME(c) __CPROVER_assume(c)
#define CHECK(c, msg) __CPROVER_assert(c, msg)
/* reachability sentinel: an obligation that MUST fail; the driver turns a passing one into exit 2 */
#define REACH(msg) __CPROVER_assert(0, "VACUITY " msg)
#endif

/* carve-out of an open known finding: active only while known_findings.txt lists id as open */
#define REACH_OK do { } while (0)
#define KF_ON(id) (defined(KF_##id))
#endif
