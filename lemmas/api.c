/* API-level lemmas: each entry calls one real API function on an arbitrary instance satisfying
 * the sequence invariant; assemble_all is used through its contract (proved in loop.c). */
#include "vf.h"
#include "al_unity.h"
#include "api_contracts.h"
#define GHOST_TEXT { const char *nd; int n; g_str = nd; g_n = n; }
void h_asm_assemble_str(void) { assemblyline_t a; const char *s; GHOST_TEXT
  int rc = asm_assemble_str(a, s);
  if (rc == EXIT_SUCCESS) REACH("asm_assemble_str success"); else REACH("asm_assemble_str failure"); }
void h_counting(void) { assemblyline_t a; char *s; int c; int *d; GHOST_TEXT
  int rc = asm_assemble_string_counting_chunks(a, s, c, d);
  if (rc == EXIT_SUCCESS) REACH("counting success"); else REACH("counting failure"); }
void h_set_chunk_size(void) { assemblyline_t a; size_t c; asm_set_chunk_size(a, c); REACH("set_chunk_size"); }
void h_set_offset(void) { assemblyline_t a; int k; asm_set_offset(a, k); REACH("set_offset"); }
void h_get_offset(void) { assemblyline_t a; asm_get_offset(a); REACH("get_offset"); }
void h_get_code(void) { assemblyline_t a; asm_get_code(a); REACH("get_code"); }
