from vf import Lemma
import native
R = lambda f: "%s/%s__c" % (f, f)
US = "debug_without_chunksize.0:22,assemble_with_chunk_fitting.0:2"
CALLEES = [R("assemble_asm"), R("check_len_or_resize")]

POW2_Q = [2, 4, 16, 64, 4096, 1 << 30]
ODD_Q = [3, 5, 12, 13, 15, 21, 100]
POW2_T = [8, 32, 128, 256, 512, 1024, 65536, 1 << 20, 1 << 31]
ODD_T = [6, 7, 9, 10, 11, 14, 17, 19, 20, 24, 25, 31, 33, 63, 127, 255, 1000, 4095, 65535, 1000003]


def chunk_lemmas(kind, props):
    out = []
    fn = {"fit": "assemble_with_chunk_fitting", "cnt": "assemble_counting_chunks"}[kind]
    entry = {"fit": "h_fitting", "cnt": "h_counting"}[kind]
    rep = CALLEES + ([R("nop_padding")] if kind == "fit" else [])
    what = {"fit": "fitting step: instruction shorter than c ends up inside one c-aligned chunk, padding only when it would cross, padding never beyond the next boundary, room check before every write",
            "cnt": "counting step: counter += [floor(p/c) != floor((p+L-1)/c)], same advance as the plain step"}[kind]
    def mk(c, tier, pmax):
        defs = {"CHUNK": "%du" % c}
        b = "chunk size enumerated (c=%d)" % c
        if pmax:
            defs["PMAX"] = "%du" % pmax
            b += ", position < %d" % pmax
        return Lemma(name="%s.%s.c%d%s" % (props[0], kind, c, ".p%d" % pmax if pmax else ""), src="steps.c", entry=entry, props=props, tier=tier,
                     defs=defs, enforce=[R(fn)], replace=rep, unwindset=US, functions=[fn], bounded=b, slice=True,
                     timeout=900 if not pmax else 300,
                     desc=what + "; position and instruction length (1..20) symbolic, buffer length any int")
    for c in POW2_Q:
        out.append(mk(c, "quick", 0))
    for c in ODD_Q:
        out.append(mk(c, "quick", 1 << 16))
    for c in POW2_T:
        if c < (1 << 31) or kind == "fit":
            out.append(mk(c, "thorough", 0))
    for c in ODD_Q + ODD_T:
        out.append(mk(c, "thorough", 0))
    return out


def lemmas():
    out = []
    out.append(Lemma(name="C07.check_len_or_resize", src="steps.c", entry="h_check_len", props=["C07"], enforce=[R("check_len_or_resize")],
                     functions=["check_len_or_resize"], timeout=120,
                     desc="room check on a caller buffer: success <=> position + 20 <= buffer_len over widened integers, for every int length and every non-negative int position; assigns nothing"))
    out.append(Lemma(name="C07.assemble", src="steps.c", entry="h_assemble", props=["C07", "C06"], enforce=[R("assemble")], replace=CALLEES,
                     unwindset=US, functions=["assemble"], timeout=300,
                     desc="plain step: writes only [buffer+p, buffer+p+20) and only when p+20 <= n; fewer than 20 bytes left => EXIT_FAILURE, position and buffer untouched; position advances by the emitter's length; buffer is_fresh of ANY int length"))
    # the same three steps with the room check INLINED (not by contract): independent of check_len_or_resize's signature and contract
    out.append(Lemma(name="C07.assemble.inl", src="steps.c", entry="h_assemble", props=["C07", "C06"], enforce=[R("assemble")], replace=[R("assemble_asm")],
                     unwindset=US, functions=["assemble", "check_len_or_resize"], timeout=300,
                     desc="plain step with the real room check inlined: same contract (writes only [buffer+p, +20) and only when p+20 <= n, else EXIT_FAILURE and nothing written)"))
    out.append(Lemma(name="C07.cnt.inl.c16", src="steps.c", entry="h_counting", props=["C07", "C14"], defs={"CHUNK": "16u"}, enforce=[R("assemble_counting_chunks")], replace=[R("assemble_asm")],
                     unwindset=US, functions=["assemble_counting_chunks", "check_len_or_resize"], timeout=600, bounded="chunk size enumerated (c=16)", slice=True,
                     desc="counting step with the real room check inlined (chunk 16)"))
    out.append(Lemma(name="C07.fit.inl.c16", src="steps.c", entry="h_fitting", props=["C07", "C13"], defs={"CHUNK": "16u"}, enforce=[R("assemble_with_chunk_fitting")], replace=[R("assemble_asm"), R("nop_padding")],
                     unwindset=US, functions=["assemble_with_chunk_fitting", "check_len_or_resize"], timeout=600, bounded="chunk size enumerated (c=16)", slice=True,
                     desc="fitting step with the real room check inlined (chunk 16)"))
    S1US = "s1_decode.0:5,s1_decode.1:6,s1_decode.2:260,s1_decode.3:9,s1_all_nops.0:21,one.0:25,one.1:25"
    for k in range(1, 20):
        out.append(Lemma(name="C13.nop_padding.k%d" % k, src="nops.c", entry="h_nop_padding", props=["C13", "C09"], defs={"NOP_K": str(k)},
                         unwind=30, unwindset=S1US, functions=["nop_padding"], timeout=120, ghosts=["g_k"],
                         replay=native.harness_replay(fixed={"g_k": k}),
                         desc="nop_padding(k=%d): writes exactly k bytes that S1 decodes as NOPs, returns k, nothing behind; k ranges over every gap the fitting step can request (1..19)" % k))
    out += chunk_lemmas("cnt", ["C14", "C07"])
    out += chunk_lemmas("fit", ["C13", "C07"])
    return out
