/* C10 (a): operand-format look-up, exhaustive.  For EVERY tuple of operand-type letters
 * (0..4 operands over r v y m i and the error letter e) the real get_opd_format returns the format
 * whose name is exactly that string, and opd_error for every string that names no format.
 * The loop is over concrete tuples (781 distinct strings, constant-folded; one run per first letter): a complete enumeration. */
#include "vf.h"
#include <stdio.h>
#define fprintf(...) ((void)0)
#include "al_unity.h"
static const struct { const char *s; int f; } SPEC_FMT[] = {
  {"", n}, {"i", n}, {"m", m}, {"mi", mi}, {"mr", mr}, {"mri", mri}, {"mrr", mrr}, {"mv", mv}, {"my", my},
  {"r", r}, {"ri", ri}, {"rm", rm}, {"rmi", rmi}, {"rmr", rmr}, {"rr", rr}, {"rri", rri}, {"rrm", rrm}, {"rrr", rrr}, {"rv", rv},
  {"vi", vi}, {"vr", vr}, {"vm", vm}, {"vv", vv}, {"vvm", vvm}, {"vvmi", vvmi}, {"vvv", vvv}, {"vvvi", vvvi},
  {"ym", ym}, {"yy", yy}, {"yym", yym}, {"yymi", yymi}, {"yyy", yyy}, {"yyyi", yyyi}};
static int spec_fmt(const char *t) {
  for (unsigned k = 0; k < sizeof(SPEC_FMT) / sizeof(SPEC_FMT[0]); k++) {
    int j = 0; while (SPEC_FMT[k].s[j] != 0 && SPEC_FMT[k].s[j] == t[j]) j++;
    if (SPEC_FMT[k].s[j] == 0 && t[j] == 0) return SPEC_FMT[k].f;
  }
  return opd_error;
}
int g_a, g_b, g_c, g_d;
void h_fmt_lookup(void) {
  static const char L[6] = {0, 'r', 'v', 'y', 'm', 'i'};   /* the error letter e never reaches the look-up */
  asm_build_index_tables();
  g_a = FIRST;                              /* one run per first letter */
  for (g_b = 0; g_b < 6; g_b++) for (g_c = 0; g_c < 6; g_c++) for (g_d = 0; g_d < 6; g_d++) {
    char t[5] = {L[g_a], L[g_b], L[g_c], L[g_d], 0};
    if ((t[0] == 0 && (t[1] || t[2] || t[3])) || (t[1] == 0 && (t[2] || t[3])) || (t[2] == 0 && t[3])) continue;   /* same string as a shorter tuple */
    CHECK(get_opd_format(t) == spec_fmt(t), "get_opd_format names exactly the operand-type string");
  }
  REACH("end");
}
