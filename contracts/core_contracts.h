/* Contracts of the per-instruction step functions and of the emitter (C06, C07, C08, C13, C14).
 * Declared on separately named prototypes f__c and applied with
 *   --enforce-contract f/f__c      (prove the real body against it)
 *   --replace-call-with-contract f/f__c   (use it at call sites)
 * so that /repo's text is verified unmodified. */
#ifndef CORE_CONTRACTS_H
#define CORE_CONTRACTS_H
#ifndef NATIVE_REPLAY
#ifndef PMAX
#define PMAX 0x80000000u /* no bound: positions are <= buffer_len <= INT_MAX anyway */
#endif

/* Representation invariant of the record handed from line_to_instr to assemble_asm.
 * REC_SHAPE is defined in rec_inv.h: what every record produced by line_to_instr satisfies
 * (proved there) and what makes assemble_asm stay within BUFFER_TOLERANCE bytes. */
#include "rec_inv.h"

/* ghost: the length of the machine code of the record under consideration.  The 2-run lemma
 * (lemmas/emit.c) proves that the real assemble_asm returns the same length and bytes for
 * the same record at any address and again on the record it has already processed. */
unsigned g_asm_len;

unsigned int assemble_asm__c(struct instr *instruc, uint8_t *dest)
  __CPROVER_requires(__CPROVER_is_fresh(instruc, sizeof(struct instr)) && rec_inv(instruc))
  __CPROVER_requires(__CPROVER_w_ok(dest, BUFFER_TOLERANCE))
  __CPROVER_assigns(__CPROVER_object_whole(instruc), __CPROVER_object_upto(dest, BUFFER_TOLERANCE))
  __CPROVER_ensures(1 <= __CPROVER_return_value && __CPROVER_return_value <= BUFFER_TOLERANCE)
  __CPROVER_ensures(__CPROVER_return_value == g_asm_len)
  __CPROVER_ensures(rec_inv(instruc));

/* room check on a caller-provided buffer, stated over widened integers so that a negative or
 * wrapped position cannot pass (C07) */
int check_len_or_resize__c(assemblyline_t al, int buf_pos)
  __CPROVER_requires(__CPROVER_is_fresh(al, sizeof(struct assemblyline)) && al->external)
  __CPROVER_requires(buf_pos >= 0)   /* callers pass an unsigned position <= buffer_len; asserted at every call site */
  __CPROVER_assigns()
  __CPROVER_ensures(__CPROVER_return_value == EXIT_SUCCESS || __CPROVER_return_value == EXIT_FAILURE)
  __CPROVER_ensures((__CPROVER_return_value == EXIT_SUCCESS) ==
        ((long)buf_pos + BUFFER_TOLERANCE <= (long)al->buffer_len));

#define STEP_PRE(al, I, buf_pos)                                                               \
  __CPROVER_requires(__CPROVER_rw_ok(al, sizeof(struct assemblyline)) && al->external && al->buffer_len >= 0) \
  __CPROVER_requires(__CPROVER_is_fresh(al->buffer, al->buffer_len))                            \
  __CPROVER_requires(__CPROVER_is_fresh(I, sizeof(struct instr)) && rec_inv(I))                 \
  __CPROVER_requires(__CPROVER_is_fresh(buf_pos, sizeof(unsigned)) && *buf_pos <= (unsigned)al->buffer_len) \
  __CPROVER_requires(1 <= g_asm_len && g_asm_len <= BUFFER_TOLERANCE)                          \
  __CPROVER_requires(*buf_pos < PMAX)

#define ROOM(al, p) ((long)(p) + BUFFER_TOLERANCE <= (long)(al)->buffer_len)

/* plain step: exactly the instruction's bytes at [p, p+L), position advances by L, and
 * "fewer than 20 bytes left => EXIT_FAILURE, nothing written" */
int assemble__c(assemblyline_t al, struct instr *I, unsigned int *buf_pos)
  STEP_PRE(al, I, buf_pos)
  __CPROVER_assigns(*buf_pos, __CPROVER_object_whole(I);
        ROOM(al, *buf_pos) : __CPROVER_object_upto(al->buffer + *buf_pos, BUFFER_TOLERANCE))
  __CPROVER_ensures(__CPROVER_return_value == EXIT_SUCCESS || __CPROVER_return_value == EXIT_FAILURE)
  __CPROVER_ensures((__CPROVER_return_value == EXIT_FAILURE) == !ROOM(al, __CPROVER_old(*buf_pos)))
  __CPROVER_ensures(__CPROVER_return_value == EXIT_FAILURE ==> *buf_pos == __CPROVER_old(*buf_pos))
  __CPROVER_ensures(__CPROVER_return_value == EXIT_SUCCESS ==>
        *buf_pos == __CPROVER_old(*buf_pos) + g_asm_len && *buf_pos <= (unsigned)al->buffer_len)
  __CPROVER_ensures(rec_inv(I));

/* counting step (C14): same bytes/advance as the plain step; the counter grows by one exactly
 * when the instruction's bytes [p, p+L) span two or more CHUNK-aligned chunks (quotient form,
 * taken from the property statement, not from the code's remainder form) */
#ifndef CHUNK
#define CHUNK 1
#endif
#if 1
int assemble_counting_chunks__c(assemblyline_t al, struct instr *I, unsigned int *buf_pos, int *chunk_brks)
  STEP_PRE(al, I, buf_pos)
  __CPROVER_requires(al->chunk_size == CHUNK)
  __CPROVER_requires(__CPROVER_is_fresh(chunk_brks, sizeof(int)) && *chunk_brks >= 0 && *chunk_brks < 0x7fffffff)
  __CPROVER_assigns(*buf_pos, *chunk_brks, __CPROVER_object_whole(I);
        ROOM(al, *buf_pos) : __CPROVER_object_upto(al->buffer + *buf_pos, BUFFER_TOLERANCE))
  __CPROVER_ensures((__CPROVER_return_value == EXIT_FAILURE) == !ROOM(al, __CPROVER_old(*buf_pos)))
  __CPROVER_ensures(__CPROVER_return_value == EXIT_SUCCESS || __CPROVER_return_value == EXIT_FAILURE)
  __CPROVER_ensures(__CPROVER_return_value == EXIT_FAILURE ==>
        *buf_pos == __CPROVER_old(*buf_pos) && *chunk_brks == __CPROVER_old(*chunk_brks))
  __CPROVER_ensures(__CPROVER_return_value == EXIT_SUCCESS ==>
        *buf_pos == __CPROVER_old(*buf_pos) + g_asm_len && *buf_pos <= (unsigned)al->buffer_len)
  __CPROVER_ensures(__CPROVER_return_value == EXIT_SUCCESS ==>
        *chunk_brks == __CPROVER_old(*chunk_brks) +
          (((unsigned)__CPROVER_old(*buf_pos) / CHUNK) !=
           (((unsigned)__CPROVER_old(*buf_pos) + g_asm_len - 1) / CHUNK) ? 1 : 0))
  __CPROVER_ensures(rec_inv(I));

/* NOP writer: exactly nop_pad_len bytes, nothing else */
unsigned int nop_padding__c(uint8_t *buf, unsigned int nop_pad_len)
  __CPROVER_requires(1 <= nop_pad_len && nop_pad_len < BUFFER_TOLERANCE && __CPROVER_w_ok(buf, nop_pad_len))
  __CPROVER_assigns(__CPROVER_object_upto(buf, nop_pad_len))
  __CPROVER_ensures(__CPROVER_return_value == nop_pad_len);

/* ghosts filled by the fitting harness wrapper: where the instruction finally went */
/* fitting step (C13).  p = old position, L = g_asm_len, c = CHUNK.
 *  - success: the instruction sits at p' = *buf_pos - L with p <= p', [p,p') is padding;
 *  - if L < c the instruction lies inside one chunk: p'/c == (p'+L-1)/c;
 *  - padding only where the instruction would otherwise cross: p/c == (p+L-1)/c ==> p' == p;
 *  - padding never exceeds the distance to the next boundary: p' == p || p' % c == 0 && p' - p < c */
int assemble_with_chunk_fitting__c(assemblyline_t al, struct instr *I, unsigned int *buf_pos)
  STEP_PRE(al, I, buf_pos)
  __CPROVER_requires(al->chunk_size == CHUNK)
  __CPROVER_assigns(*buf_pos, __CPROVER_object_whole(I);
        ROOM(al, *buf_pos) : __CPROVER_object_from(al->buffer + *buf_pos))
  __CPROVER_ensures(__CPROVER_return_value == EXIT_SUCCESS || __CPROVER_return_value == EXIT_FAILURE)
  __CPROVER_ensures(!ROOM(al, __CPROVER_old(*buf_pos)) ==>
        __CPROVER_return_value == EXIT_FAILURE && *buf_pos == __CPROVER_old(*buf_pos))
  __CPROVER_ensures(*buf_pos <= (unsigned)al->buffer_len)
  __CPROVER_ensures(__CPROVER_return_value == EXIT_SUCCESS ==>
        *buf_pos >= __CPROVER_old(*buf_pos) + g_asm_len)
  __CPROVER_ensures(__CPROVER_return_value == EXIT_SUCCESS && g_asm_len < CHUNK ==>
        ((unsigned)(*buf_pos - g_asm_len) / CHUNK) == ((unsigned)(*buf_pos - 1) / CHUNK))
  __CPROVER_ensures(__CPROVER_return_value == EXIT_SUCCESS &&
        ((unsigned)__CPROVER_old(*buf_pos) / CHUNK) == (((unsigned)__CPROVER_old(*buf_pos) + g_asm_len - 1) / CHUNK) ==>
        *buf_pos == __CPROVER_old(*buf_pos) + g_asm_len)
  __CPROVER_ensures(__CPROVER_return_value == EXIT_SUCCESS ==>
        (*buf_pos == __CPROVER_old(*buf_pos) + g_asm_len ||
         ((unsigned)(*buf_pos - g_asm_len) % CHUNK == 0 &&
          (unsigned)(*buf_pos - g_asm_len) - __CPROVER_old(*buf_pos) < CHUNK &&
          (unsigned)(*buf_pos - g_asm_len) - __CPROVER_old(*buf_pos) < g_asm_len)))
  __CPROVER_ensures(rec_inv(I));
#endif
#endif
#endif
