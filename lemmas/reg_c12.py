from vf import Lemma

PROPS = {"C12": {"level": "proof",
                 "text": "Proof: the contract of each of the five setters (new option byte == documented per-dimension overwrite; undocumented values change nothing; frame = al->assembly_opt only) is enforced by DFCC for every one of the 256 option bytes and every int option value; asm_sib/asm_set_all are proved against the contracts of their callees. Any finite setter sequence follows by induction over one arbitrary call.",
                 "note": "Documented expansion taken from man/asm_set_all.3 (agrees with tools/README.md; the header comment omits no-base).",
                 "technique": "CBMC function contracts enforced with goto-instrument --dfcc, callees replaced by contract",
                 "design_ref": "DESIGN.md 4.12",
                 "trusted": ["man/asm_set_all.3 and src/assemblyline.h:171-261 as the documented expansion (contracts/c12_contracts.h)"],
                 "assumptions": ["'behaves according to' the stored bits is the subject of C11; C12 proves the stored bits",
                                 "any finite setter sequence follows by induction over one arbitrary call from an arbitrary state (paper step)"],
                 "explanation": "each setter's contract is enforced for all 256 option bytes x every int option value; frame = assembly_opt only"}}


def lemmas():
    R = lambda f: "%s/%s__c" % (f, f)
    leaf = ["asm_mov_imm", "asm_sib_index_base_swap", "asm_sib_no_base"]
    out = []
    for f in leaf:
        out.append(Lemma(name="C12." + f, src="c12.c", entry="h_" + f, props=["C12", "C15", "C18"], enforce=[R(f)],
                         functions=[f], timeout=120,
                         desc="%s: new option byte == documented overwrite of its dimension, every other value a no-op, assigns only al->assembly_opt" % f))
    out.append(Lemma(name="C12.asm_sib", src="c12.c", entry="h_asm_sib", props=["C12", "C15", "C18"], enforce=[R("asm_sib")],
                     replace=[R("asm_sib_index_base_swap"), R("asm_sib_no_base")], functions=["asm_sib"], timeout=120,
                     desc="asm_sib == swap then no-base for NASM/STRICT, no-op otherwise (callees by contract)"))
    out.append(Lemma(name="C12.asm_set_all", src="c12.c", entry="h_asm_set_all", props=["C12", "C15", "C18"], enforce=[R("asm_set_all")],
                     replace=[R(f) for f in leaf], functions=["asm_set_all"], timeout=120,
                     desc="asm_set_all == man-page expansion (swap, no-base, mov-imm for NASM/STRICT; mov-imm only for SMART)"))
    return out
