#ifndef REC_INV_H
#define REC_INV_H
/* placeholder shape; refined in the emitter lemma (see lemmas/emit.c) */
#define rec_inv(I) ((I)->key >= 3 && (I)->key <= 317)
#endif
