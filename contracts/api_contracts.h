/* API-level contracts (C06, C07, C14, C15): the sequence invariant API_INV is required and
 * ensured by every call, so any call history is covered by induction over one arbitrary call. */
#ifndef API_CONTRACTS_H
#define API_CONTRACTS_H
#ifndef NATIVE_REPLAY
#include "loop_contracts.h"

/* state of an instance between API calls, as the documentation describes it */
#define API_INV(al) ((al)->buffer_len >= 0 && (al)->offset >= 0 && (al)->offset <= (al)->buffer_len && \
   ((al)->assembly_mode == ASSEMBLE || ((al)->assembly_mode == CHUNK_FITTING && (al)->chunk_size >= 2)))

#define CONFIG_UNCHANGED(al) ((al)->assembly_mode == __CPROVER_old((al)->assembly_mode) && \
   (al)->chunk_size == __CPROVER_old((al)->chunk_size) && (al)->assembly_opt == __CPROVER_old((al)->assembly_opt) && \
   (al)->buffer == __CPROVER_old((al)->buffer) && (al)->buffer_len == __CPROVER_old((al)->buffer_len) && \
   (al)->external == __CPROVER_old((al)->external) && (al)->debug == __CPROVER_old((al)->debug))

#define API_PRE(al, str)                                                                        \
  __CPROVER_requires(__CPROVER_is_fresh(al, sizeof(struct assemblyline)) && al->external && API_INV(al)) \
  __CPROVER_requires(__CPROVER_is_fresh(al->buffer, al->buffer_len))                             \
  __CPROVER_requires(g_n >= 0 && g_n <= TEXT_MAX && __CPROVER_is_fresh(str, g_n + 1) && g_str == str && str[g_n] == '\0') \
  __CPROVER_requires(g_cross == 0 && g_steps == 0)

int asm_assemble_str__c(assemblyline_t al, const char *assembly_str)
  API_PRE(al, assembly_str)
  __CPROVER_assigns(g_cross, g_steps, __CPROVER_object_whole(al), __CPROVER_object_from(al->buffer + al->offset))
  __CPROVER_ensures(__CPROVER_return_value == EXIT_SUCCESS || __CPROVER_return_value == EXIT_FAILURE)
  __CPROVER_ensures(API_INV(al))                          /* the instance stays usable, also after a failure */
  __CPROVER_ensures(CONFIG_UNCHANGED(al))
  __CPROVER_ensures(__CPROVER_return_value == EXIT_SUCCESS ==> al->offset >= __CPROVER_old(al->offset))
  __CPROVER_ensures(__CPROVER_return_value == EXIT_SUCCESS && g_steps == 0 ==> al->offset == __CPROVER_old(al->offset));

int asm_assemble_string_counting_chunks__c(assemblyline_t al, char *str, int chunk_size, int *dest)
  API_PRE(al, str)
  __CPROVER_requires(__CPROVER_is_fresh(dest, sizeof(int)))
  __CPROVER_requires(al->assembly_mode == ASSEMBLE)        /* C14: "on an instance without chunk fitting enabled" */
  __CPROVER_assigns(g_cross, g_steps, *dest, __CPROVER_object_whole(al), __CPROVER_object_from(al->buffer + al->offset))
  __CPROVER_ensures(__CPROVER_return_value == EXIT_SUCCESS || __CPROVER_return_value == EXIT_FAILURE)
  __CPROVER_ensures(API_INV(al))
  __CPROVER_ensures(CONFIG_UNCHANGED(al))                  /* C15: an earlier counting call must not influence later calls */
  __CPROVER_ensures(*dest == g_cross)                      /* number of crossing steps of THIS call, whatever *dest held before */
  __CPROVER_ensures(chunk_size < 2 ==> *dest == 0)
  __CPROVER_ensures(__CPROVER_return_value == EXIT_SUCCESS ==> al->offset >= __CPROVER_old(al->offset));

void asm_set_chunk_size__c(assemblyline_t al, size_t chunk_size)
  __CPROVER_requires(__CPROVER_is_fresh(al, sizeof(struct assemblyline)))
  __CPROVER_assigns(al->chunk_size, al->assembly_mode)
  __CPROVER_ensures(chunk_size < 2 ==> al->assembly_mode == ASSEMBLE)
  __CPROVER_ensures(chunk_size >= 2 ==> al->assembly_mode == CHUNK_FITTING && al->chunk_size == chunk_size);

void asm_set_offset__c(assemblyline_t al, int offset)
  __CPROVER_requires(__CPROVER_is_fresh(al, sizeof(struct assemblyline)))
  __CPROVER_assigns(al->offset)
  __CPROVER_ensures(al->offset == offset);

int asm_get_offset__c(assemblyline_t al)
  __CPROVER_requires(__CPROVER_is_fresh(al, sizeof(struct assemblyline)))
  __CPROVER_assigns()
  __CPROVER_ensures(__CPROVER_return_value == al->offset);

void *asm_get_code__c(assemblyline_t al)
  __CPROVER_requires(__CPROVER_is_fresh(al, sizeof(struct assemblyline)))
  __CPROVER_assigns()
  __CPROVER_ensures(__CPROVER_return_value == al->buffer);
#endif
#endif
#ifndef NATIVE_REPLAY
#ifdef MODELS_OS_H

/* file entry points (C19): the text handed to the in-memory entry point is the mapping; it must
 * be a NUL-terminated string inside its object (asm_assemble_str__f's precondition) */
/* ghosts: which in-memory entry point the file wrapper called, with which arguments */
int g_inner_kind; int g_inner_chunk; int *g_inner_dest; unsigned g_inner_calls;
int asm_assemble_str__f(assemblyline_t al, const char *assembly_str)
  __CPROVER_requires(__CPROVER_r_ok(assembly_str, g_map_size))
  __CPROVER_requires(g_file_len < g_map_size && assembly_str[g_file_len] == '\0')    /* a terminator exists behind the file's bytes */
  __CPROVER_assigns(__CPROVER_object_whole(al), g_inner_rc, g_inner_kind, g_inner_calls)
  __CPROVER_ensures((__CPROVER_return_value == EXIT_SUCCESS || __CPROVER_return_value == EXIT_FAILURE) && g_inner_rc == __CPROVER_return_value)
  __CPROVER_ensures(g_inner_kind == 1 && g_inner_calls == __CPROVER_old(g_inner_calls) + 1);
int asm_assemble_string_counting_chunks__f(assemblyline_t al, char *str, int chunk_size, int *dest)
  __CPROVER_requires(__CPROVER_r_ok(str, g_map_size))
  __CPROVER_requires(g_file_len < g_map_size && str[g_file_len] == '\0')
  __CPROVER_assigns(__CPROVER_object_whole(al), g_inner_rc, g_inner_kind, g_inner_calls, g_inner_chunk, g_inner_dest; dest != NULL: *dest)
  __CPROVER_ensures((__CPROVER_return_value == EXIT_SUCCESS || __CPROVER_return_value == EXIT_FAILURE) && g_inner_rc == __CPROVER_return_value)
  __CPROVER_ensures(g_inner_kind == 2 && g_inner_chunk == chunk_size && g_inner_dest == dest && g_inner_calls == __CPROVER_old(g_inner_calls) + 1);
#endif
#endif
