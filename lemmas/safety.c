/* C09: memory safety of the text half behind the filter, function by function.
 * Everything behind filter_assembly_str_fsa works on char filter_str[100] that the filter
 * leaves NUL-terminated (filter contract), so 100 is the code's own bound: each lemma takes a
 * FULLY symbolic 100-byte buffer with only FB[99] == 0 fixed, a symbolic start offset into it,
 * and runs the real function under CBMC's pointer/bounds/overflow/shift checks with
 * unwinding assertions on (complete for this buffer). */
#include "vf.h"
#include <stdio.h>
#define fprintf(...) ((void)0)   /* diagnostics to stderr: no effect on program state; CBMC's varargs model of fprintf is costly under DFCC */
#include "al_unity.h"
#define LIBC_SAFETY_ABSTRACTION 1
#include "libc.h"
#include "text_contracts.h"

static char FB[FILTERED_STR_LEN];
int g_off;
static char *mk(void) {
  for (int i = 0; i < FILTERED_STR_LEN; i++) { char c; FB[i] = c; }
  FB[FILTERED_STR_LEN - 1] = '\0';
  GHOST_IN(int, g_off);
  ASSUME(g_off >= 0 && g_off < FILTERED_STR_LEN);
  return FB + g_off;
}
/* first non-blank character of the operand, as get_operand_type sees it */
static char first_ch(const char *p) { int i = 0; while (p[i] == ' ') i++; return p[i]; }

void h_get_operand_type(void) { char *p = mk(); char t = get_operand_type(p);
  CHECK(t == 'm' || t == 'r' || t == 'v' || t == 'y' || t == 'i' || t == 'e', "operand type is one of the six letters"); REACH("end"); }

void h_get_reg_str(void) { char *p = mk(); char reg[MAX_REG_LEN] = {0}; get_reg_str(p, reg);
  CHECK(reg[MAX_REG_LEN - 1] == '\0', "register copy stays NUL-terminated"); REACH("end"); }

void h_find_add_mem(void) { char *p = mk(); bool neg = false; int base = 0; ASSUME(first_ch(p) == '['); int r = find_add_mem(p, &neg, &base);
  CHECK(r == NA || (r >= 1 && p + r < FB + FILTERED_STR_LEN && p[r] != '\0'), "displacement index points at a character of the operand");
  CHECK(base == RADIX_10 || base == RADIX_16, "radix is 10 or 16"); REACH("end"); }

void h_find_mem_const(void) { char *p = mk(); bool neg = false; int base = RADIX_16; ASSUME(first_ch(p) == '['); int r = find_mem_const(p, &neg, &base);
  CHECK(r == NA || (r >= 1 && p + r < FB + FILTERED_STR_LEN), "constant index stays inside the buffer"); REACH("end"); }

void h_get_index_reg(void) { char *p = mk(); struct instr I; char sib[MAX_REG_LEN] = {0};
  ASSUME(first_ch(p) == '[');                 /* only called for operands of type 'm' */
  unsigned r = get_index_reg(&I, p, sib);
  CHECK(sib[MAX_REG_LEN - 1] == '\0', "index register copy stays NUL-terminated");
  CHECK(r == EXIT_SUCCESS || r == EXIT_FAILURE, "returns success or failure"); REACH("end"); }

void h_mem_tok(void) { char *p = mk(); struct instr I = {0}; int pos;
  ASSUME(pos >= 0 && pos < NUM_OF_OPD); ASSUME(first_ch(p) == '[');
  int r = mem_tok(&I, p, pos);
  CHECK(r == EXIT_SUCCESS || r == EXIT_FAILURE, "returns success or failure");
  CHECK(I.opd[pos].sib[MAX_REG_LEN - 1] == '\0', "index register copy stays NUL-terminated"); REACH("end"); }

void h_imm_tok(void) { char *p = mk(); struct instr I = {0}; uint8_t o; I.assembly_opt = o;
  char c = first_ch(p); ASSUME(c != '\0' && ((c >= '0' && c <= '9') || c >= '-'));   /* operands of type 'i' */
  imm_tok(&I, p);
  CHECK(I.imm, "immediate flag set"); REACH("end"); }

void h_check_for_keyword(void) { char *p = mk(); struct instr I = {0}; int pos; g_buf = FB;
  check_for_keyword(&I, p, pos);
  REACH("end"); }

void h_str_to_reg(void) { char s[MAX_REG_LEN]; s[MAX_REG_LEN - 1] = '\0'; asm_reg r = str_to_reg(s); REACH("end"); }

/* ---- glue functions, callees by contract (DFCC) ---- */
static struct instr GI;
void h_check_operand_type(void) { char *p = mk(); int pos; int k; _Bool nul; g_buf = FB;
  ASSUME(k >= 0 && k < FILTERED_STR_LEN);
  char *sv = nul ? (char *)0 : FB + k;        /* strtok_r's save pointer: NULL or inside the line buffer */
  check_operand_type(&GI, p, pos, sv); REACH("end"); }
void h_operand_tok(void) { char *p = mk(); int pos; g_buf = FB;
  operand_tok(&GI, p, pos); REACH("end"); }
void h_instr_tok(void) { char *p = mk(); g_buf = FB;
  instr_tok(&GI, p); REACH("end"); }
