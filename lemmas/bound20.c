/* C07 (1): no line whatsoever makes the emitter write more than the 20 reserve bytes.
 * line_to_instr runs for real on a record the tokenizer may have produced for ANY text
 * (instr_tok by contract: arbitrary operand types/flags within the tokenizer's invariants,
 * arbitrary numbers), look-ups by contract (any row that lists the operand format, any register
 * code), then the real encoder and the real assemble_asm. */
#include "vf.h"
#include <stdio.h>
#define fprintf(...) ((void)0)
#include "al_unity.h"
#define LIBC_SAFETY_ABSTRACTION 1
#include "libc.h"
#include "text_contracts.h"
#include "tok_contracts.h"
static char FBUF[FILTERED_STR_LEN];
int g_key; unsigned g_len20; int g_fmt; char g_t[4];
void h_bound20(void) {
  struct instr I = {0}; uint8_t o; I.assembly_opt = o;
  for (int i = 0; i < FILTERED_STR_LEN - 1; i++) { char c; FBUF[i] = c; }
  FBUF[FILTERED_STR_LEN - 1] = 0; g_buf = FBUF;
  ASSUME(FBUF[0] >= 'A' && FBUF[0] <= 'z');   /* what the filter leaves at the start of a non-empty line (filter postcondition group C) */
  STATIC_ZERO_INIT_INDEX_TABLES(); asm_build_index_tables();
  int rc = line_to_instr(&I, FBUF);
  if (rc != EXIT_SUCCESS) { REACH("rejected"); return; }
  g_key = I.key;
  g_t[0] = I.opd[0].type; g_t[1] = I.opd[1].type; g_t[2] = I.opd[2].type; g_t[3] = I.opd[3].type;
  CHECK(N_T(&I, 'm') <= 1, "accepted lines have at most one memory operand");
  CHECK(I.key >= 3 && I.key <= 317, "accepted record has a valid table row");
  /* C10: the operand format n stands for "no operand" and for "one immediate"; an accepted line has
   * the operand the table row encodes: no operand for a row without operand encoding, an immediate otherwise */
  if (g_t[0] == 0) CHECK(INSTR_TABLE[I.key].encode_operand == NA, "a line without operand is accepted only for an instruction that takes none");
  if (g_t[0] == 'i') CHECK(INSTR_TABLE[I.key].encode_operand != NA, "a lone immediate operand is accepted only for an instruction that takes one");
  uint8_t out[48];
  g_len20 = assemble_asm(&I, out);
  CHECK(g_len20 <= BUFFER_TOLERANCE, "no accepted line emits more than the 20 reserve bytes");
  REACH("accepted");
}
