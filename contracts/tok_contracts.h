/* The tokenizer chain against the record relation line_to_instr relies on (TOK_REL, text_contracts.h):
 *   instr_tok -> operand_tok (recursive) -> check_operand_type -> { imm_tok, get_reg_str, mem_tok }
 * Every function gets an "__r" contract that carries the relation through the recursion:
 *   PART(I, k): operands 0..k-1 are tokenized register/memory operands, slots k..3 are untouched,
 *               no immediate yet, memory flags consistent with the memory operands seen so far,
 *               encoder fields still zero.
 * instr_tok__r (what line_to_instr uses) is then a proved contract, not an assumed one.
 * Leaf contracts (imm_tok__r, mem_tok__r) are justified by plain-harness lemmas with the same
 * pre/postconditions on a fully symbolic line buffer and an arbitrary record (lemmas/tokrel.c). */
#ifndef TOK_CONTRACTS_H
#define TOK_CONTRACTS_H
#ifndef NATIVE_REPLAY
#include "text_contracts.h"

#define T_(I, j) ((I)->opd[j].type)
#define IS_RVY(t) ((t) == 'r' || (t) == 'v' || (t) == 'y')
#define SLOT_EMPTY(I, j) (T_(I, j) == 0 && (I)->opd[j].str[0] == 0 && (I)->opd[j].sib[0] == 0)
#define SLOT_DONE(I, j) ((IS_RVY(T_(I, j)) && (I)->opd[j].sib[0] == 0) || T_(I, j) == 'm')
#define SLOT_K(I, j, k) ((k) > (j) ? SLOT_DONE(I, j) : SLOT_EMPTY(I, j))
#define ENC_ZERO(I) (!(I)->zero_byte && !(I)->is_sib_const && !(I)->is_sib && !(I)->no_base && !(I)->reduced_imm && \
                     !(I)->hex.is_66H && !(I)->hex.is_67H && (I)->op_offset == 0 && (I)->rd_offset == 0)
#define MODD_OK(v) ((v) == 0 || (v) == MOD8 || (v) == MOD16 || (v) == MOD24)
#define NM_BELOW(I, k) (((k) > 0 && T_(I, 0) == 'm') + ((k) > 1 && T_(I, 1) == 'm') + ((k) > 2 && T_(I, 2) == 'm') + ((k) > 3 && T_(I, 3) == 'm'))
#define MEMFLAGS(I, k) ((I)->mem_index < NUM_OF_OPD && MODD_OK((I)->mod_disp) && (!(I)->mem_value || (I)->mem_disp) && \
   (NM_BELOW(I, k) == 0 ? (!(I)->mem_disp && !(I)->mem_value) \
                        : ((I)->mem_disp && (int)(I)->mem_index < (k) && T_(I, (I)->mem_index) == 'm' && \
                           (NM_BELOW(I, k) != 1 || !(I)->mem_value || ((I)->mem_offset == 0 && (I)->mod_disp == 0 && (I)->opd[(I)->mem_index].sib[0] == 0)))))
#define PART(I, k) (OPD_STR_OK(I) && SLOT_K(I, 0, k) && SLOT_K(I, 1, k) && SLOT_K(I, 2, k) && SLOT_K(I, 3, k) && !(I)->imm && ENC_ZERO(I) && MEMFLAGS(I, k))
/* PART(I, k) except that the type of slot k has just been set (its strings are still empty) */
#define SLOT_TYPED(I, j) (TYPE_OK(T_(I, j)) && (I)->opd[j].str[0] == 0 && (I)->opd[j].sib[0] == 0)
#define SLOT_KT(I, j, k) ((k) > (j) ? SLOT_DONE(I, j) : (k) == (j) ? SLOT_TYPED(I, j) : SLOT_EMPTY(I, j))
#define PARTK(I, k) (OPD_STR_OK(I) && SLOT_KT(I, 0, k) && SLOT_KT(I, 1, k) && SLOT_KT(I, 2, k) && SLOT_KT(I, 3, k) && !(I)->imm && ENC_ZERO(I) && MEMFLAGS(I, k))
/* the record after an immediate in slot k: everything before as in PART(I, k), the immediate flag set, nothing behind */
#define SLOT_IMM(I, j) (T_(I, j) == 'i' && (I)->opd[j].str[0] == 0 && (I)->opd[j].sib[0] == 0)
#define SLOT_KI(I, j, k) ((k) > (j) ? SLOT_DONE(I, j) : (k) == (j) ? SLOT_IMM(I, j) : SLOT_EMPTY(I, j))
#define AFTER_IMM(I, k) (OPD_STR_OK(I) && SLOT_KI(I, 0, k) && SLOT_KI(I, 1, k) && SLOT_KI(I, 2, k) && SLOT_KI(I, 3, k) && (I)->imm && ENC_ZERO(I) && MEMFLAGS(I, k))
/* the finished record, as line_to_instr needs it */
#define TOKENIZED(I) (OPD_STR_OK(I) && OPD_TYPES_OK(I) && TOK_REL(I) && !HAS_T(I, 'e') && (I)->imm == HAS_T(I, 'i') && (I)->mem_disp == HAS_T(I, 'm') && MODD_OK((I)->mod_disp))
/* a record as assemble_all hands it to the first line function: zeroed except for the option byte; line_to_instr sets mod_disp */
#define REC_FRESH(I) (PART(I, 0) && (I)->mem_index == 0 && (I)->instruction[INSTRUCTION_CHAR_LEN - 1] == 0)
#define OPT_REL(I) ((I)->assembly_opt == __CPROVER_old((I)->assembly_opt) || (I)->assembly_opt == (__CPROVER_old((I)->assembly_opt) | NASM_MOV_IMM))
#define TOKR_PRE(I, p) __CPROVER_requires(__CPROVER_rw_ok(I, sizeof(struct instr)) && FBUF_OK && IN_FBUF(p))
#define TOKR_FRAME(I) __CPROVER_assigns(__CPROVER_object_whole(I), __CPROVER_object_whole(g_buf))
#define TOKR_BUF __CPROVER_ensures(g_buf[FILTERED_STR_LEN - 1] == 0)

/* "unchanged" groups (the frame is the whole record, so what a callee leaves alone is said explicitly) */
#define KEEP(I, f) ((I)->f == __CPROVER_old((I)->f))
#define KEEP_SLOT(I, j) (KEEP(I, opd[j].type) && KEEP(I, opd[j].str[0]) && KEEP(I, opd[j].str[MAX_REG_LEN - 1]) && KEEP(I, opd[j].sib[0]) && KEEP(I, opd[j].sib[MAX_REG_LEN - 1]))
#define KEEP_SLOTS_BUT(I, k) (((k) == 0 || KEEP_SLOT(I, 0)) && ((k) == 1 || KEEP_SLOT(I, 1)) && ((k) == 2 || KEEP_SLOT(I, 2)) && ((k) == 3 || KEEP_SLOT(I, 3)))
#define KEEP_ENC(I) (KEEP(I, zero_byte) && KEEP(I, is_sib_const) && KEEP(I, is_sib) && KEEP(I, no_base) && KEEP(I, reduced_imm) && KEEP(I, hex.is_66H) && KEEP(I, hex.is_67H) && \
                     KEEP(I, op_offset) && KEEP(I, rd_offset) && KEEP(I, instruction[INSTRUCTION_CHAR_LEN - 1]))
#define KEEP_MEM(I) (KEEP(I, mem_disp) && KEEP(I, mem_value) && KEEP(I, mem_index) && KEEP(I, mem_offset) && KEEP(I, mod_disp))

/* leaf: immediate.  Sets the immediate flag and the constant, may set the NASM bit, nothing else */
void imm_tok__r(struct instr *instr_buffer, char *imme)
  TOKR_PRE(instr_buffer, imme)
  __CPROVER_requires(get_operand_type(imme) == 'i')
  TOKR_FRAME(instr_buffer) TOKR_BUF
  __CPROVER_ensures(instr_buffer->imm && OPT_REL(instr_buffer) && KEEP_MEM(instr_buffer) && KEEP_ENC(instr_buffer) && KEEP_SLOTS_BUT(instr_buffer, -1));

/* the same contract in enforcement form, on a wrapper that receives the line buffer and an offset (the leaf takes an
 * interior pointer, which is_fresh cannot produce): proves the frame of imm_tok (it tokenises with strtok_r: a static
 * tokenizer state would be a write outside the frame) */
void w_imm_tok(struct instr *instr_buffer, char *buf, int off);
void w_imm_tok__e(struct instr *instr_buffer, char *buf, int off)
  __CPROVER_requires(__CPROVER_is_fresh(instr_buffer, sizeof(struct instr)) && __CPROVER_is_fresh(buf, FILTERED_STR_LEN) && buf[FILTERED_STR_LEN - 1] == 0 && g_buf == buf)
  __CPROVER_requires(off >= 0 && off < FILTERED_STR_LEN && get_operand_type(buf + off) == 'i')
  __CPROVER_assigns(__CPROVER_object_whole(instr_buffer), __CPROVER_object_whole(buf))
  __CPROVER_ensures(buf[FILTERED_STR_LEN - 1] == 0)
  __CPROVER_ensures(instr_buffer->imm && OPT_REL(instr_buffer) && KEEP_MEM(instr_buffer) && KEEP_ENC(instr_buffer) && KEEP_SLOTS_BUT(instr_buffer, -1));

/* leaf: memory operand in slot opd_pos: memory flags, the index-register string of that slot, mod_disp */
int mem_tok__r(struct instr *instr_buffer, char *mem, int opd_pos)
  TOKR_PRE(instr_buffer, mem)
  __CPROVER_requires(opd_pos >= 0 && opd_pos < NUM_OF_OPD && get_operand_type(mem) == 'm' && MODD_OK(instr_buffer->mod_disp))
  __CPROVER_requires(instr_buffer->opd[opd_pos].sib[0] == 0 && instr_buffer->opd[opd_pos].sib[MAX_REG_LEN - 1] == 0)
  TOKR_FRAME(instr_buffer) TOKR_BUF
  __CPROVER_ensures(__CPROVER_return_value == EXIT_SUCCESS || __CPROVER_return_value == EXIT_FAILURE)
  __CPROVER_ensures(instr_buffer->mem_disp && instr_buffer->mem_index == opd_pos && MODD_OK(instr_buffer->mod_disp))
  __CPROVER_ensures(__CPROVER_return_value == EXIT_SUCCESS ==> (instr_buffer->mem_value == __CPROVER_old(instr_buffer->mem_value) ||
        (instr_buffer->mem_value && instr_buffer->mem_offset == 0 && instr_buffer->mod_disp == 0 && instr_buffer->opd[opd_pos].sib[0] == 0)))
  __CPROVER_ensures(KEEP(instr_buffer, imm) && KEEP(instr_buffer, assembly_opt) && KEEP_ENC(instr_buffer) && KEEP_SLOTS_BUT(instr_buffer, opd_pos))
  __CPROVER_ensures(KEEP(instr_buffer, opd[opd_pos].type) && KEEP(instr_buffer, opd[opd_pos].str[0]) && KEEP(instr_buffer, opd[opd_pos].str[MAX_REG_LEN - 1]) &&
                    instr_buffer->opd[opd_pos].sib[MAX_REG_LEN - 1] == 0);

/* register copy: writes reg[0..4] only (precise frame) */
void get_reg_str__r(char *opd_str, char *reg)
  __CPROVER_requires(FBUF_OK && IN_FBUF(opd_str) && __CPROVER_rw_ok(reg, MAX_REG_LEN) && reg[MAX_REG_LEN - 1] == 0)
  __CPROVER_assigns(__CPROVER_object_upto(reg, MAX_REG_LEN - 1));

/* dispatcher: the type of slot opd_pos has just been set from the operand text */
int check_operand_type__r(struct instr *instr_buffer, char *all_opd, int opd_pos, char *saved_opd)
  TOKR_PRE(instr_buffer, all_opd)
  __CPROVER_requires(opd_pos >= 0 && opd_pos < NUM_OF_OPD && PARTK(instr_buffer, opd_pos))
  __CPROVER_requires(instr_buffer->opd[opd_pos].type == get_operand_type(all_opd))
  __CPROVER_requires(saved_opd == NULL || IN_FBUF(saved_opd))
  TOKR_FRAME(instr_buffer) TOKR_BUF
  __CPROVER_ensures(__CPROVER_return_value == EXIT_SUCCESS || __CPROVER_return_value == EXIT_FAILURE)
  __CPROVER_ensures(OPT_REL(instr_buffer))
  __CPROVER_ensures(__CPROVER_return_value == EXIT_SUCCESS ==> __CPROVER_old(instr_buffer->opd[opd_pos].type) != 'e')
  __CPROVER_ensures(__CPROVER_return_value == EXIT_SUCCESS && __CPROVER_old(instr_buffer->opd[opd_pos].type) == 'i' ==>
        (AFTER_IMM(instr_buffer, opd_pos) && (saved_opd == NULL || saved_opd[0] == '\0')))     /* nothing follows an immediate */
  __CPROVER_ensures(__CPROVER_return_value == EXIT_SUCCESS && __CPROVER_old(instr_buffer->opd[opd_pos].type) != 'i' ==> PART(instr_buffer, opd_pos + 1));

/* operand list from slot opd_pos on (recursive) */
int operand_tok__r(struct instr *instr_buffer, char *opds, int opd_pos)
  TOKR_PRE(instr_buffer, opds)
  __CPROVER_requires(opd_pos >= 0 && opd_pos < NUM_OF_OPD && opds[0] != '\0' && PART(instr_buffer, opd_pos))
  TOKR_FRAME(instr_buffer) TOKR_BUF
  __CPROVER_ensures(__CPROVER_return_value == EXIT_SUCCESS || __CPROVER_return_value == EXIT_FAILURE)
  __CPROVER_ensures(OPT_REL(instr_buffer))
  __CPROVER_ensures(__CPROVER_return_value == EXIT_SUCCESS ==> TOKENIZED(instr_buffer));

/* whole line: what line_to_instr relies on */
int instr_tok__r2(struct instr *instr_buffer, char *comp_instr)
  __CPROVER_requires(__CPROVER_rw_ok(instr_buffer, sizeof(struct instr)) && FBUF_OK && comp_instr == g_buf && comp_instr[0] >= 'A' && comp_instr[0] <= 'z')
  __CPROVER_requires(REC_FRESH(instr_buffer) && MODD_OK(instr_buffer->mod_disp))
  TOKR_FRAME(instr_buffer) TOKR_BUF
  __CPROVER_ensures(__CPROVER_return_value == EXIT_SUCCESS || __CPROVER_return_value == EXIT_FAILURE)
  __CPROVER_ensures(OPT_REL(instr_buffer))
  __CPROVER_ensures(__CPROVER_return_value == EXIT_SUCCESS ==> TOKENIZED(instr_buffer));
#endif
#endif
