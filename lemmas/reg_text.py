"""C09 / C10 / C16 / C07(bound): text-half lemmas."""
from vf import Lemma
import os, vf
import native
R = lambda f: "%s/%s__c" % (f, f)
ART = [r"^_fn\.pointer_primitives\.\d+$"]


def lemmas():
    out = []
    out.append(Lemma(name="C09.filter.loop", src="text.c", entry="h_filter", props=["C09", "C16", "C10"], enforce=[R("filter_assembly_str_fsa")],
                     loops_file="filter_loop.json", apply_loops=True, timeout=1800, mem_gb=40, object_bits=10, ignore=ART, functions=["filter_assembly_str_fsa"],
                     desc="line filter under a loop contract, input line of ANY length (object size is the only limit): reads stay inside the NUL-terminated input, writes stay inside filter_str[0..99], the buffer is left NUL-terminated, a byte above 0x7e in the scanned part is an error, the loop terminates"))
    for tag, what in (("B", "the scanned part (up to the returned position) holds no LF, CR, NUL, ';' or '%'"), ("C", "the kept text is empty or starts with a letter-range character"),
                      ("D", "the scan stops only at LF, CR, NUL, ';' or '%', or when 99 characters have been kept (so blanks, which are not kept, never shorten a line)")):
        out.append(Lemma(name="C09.filter.loop." + tag, src="text.c", entry="h_filter", props=["C09", "C16", "C06"], enforce=["filter_assembly_str_fsa/filter_assembly_str_fsa__c" + tag],
                         loops_file="filter_loop_%s.json" % tag, apply_loops=True, timeout=1800, mem_gb=40, object_bits=10, ignore=ART, safety=False, functions=["filter_assembly_str_fsa"],
                         desc="line filter under a loop contract (any line length), second/third postcondition group: " + what + " (memory-safety obligations are those of C09.filter.loop)"))
    leaf = [("get_operand_type", 300), ("get_reg_str", 600), ("find_add_mem", 600), ("find_mem_const", 600), ("get_index_reg", 900),
            ("mem_tok", 2400), ("imm_tok", 1800), ("str_to_reg", 300)]
    for f, to in leaf:
        out.append(Lemma(name="C09.safe." + f, src="safety.c", entry="h_" + f, props=["C09"], timeout=to, ghosts=["g_off"], unwindset="find_reg.0:40,strcmp.0:8,mk.0:101",
                         tier="quick" if to <= 900 else "thorough", functions=[f],
                         desc="%s on a fully symbolic 100-byte line buffer (only the terminator fixed) from a symbolic offset: no out-of-bounds access, overflow or undefined shift; copies stay NUL-terminated" % f))
    out.append(Lemma(name="C09.safe.check_for_keyword", src="safety.c", entry="h_check_for_keyword", props=["C09"], timeout=1800, ghosts=["g_off"],
                     enforce_rec=[R("check_for_keyword")], unwindset="mk.0:101", functions=["check_for_keyword"], tier="thorough",
                     desc="recursive keyword scanner against its contract (--enforce-contract-rec): touches only the line buffer and the keyword bits, buffer stays terminated"))
    out.append(Lemma(name="C07.bound20", src="bound20.c", entry="h_bound20", props=["C07", "C09"], timeout=1800, mem_gb=24, object_bits=12, ghosts=["g_key", "g_len20", "g_t"],
                     replace=["instr_tok/instr_tok__r2", R("get_opd_format"), R("str_to_instr_key"), R("str_to_reg")], unwindset="h_bound20.0:101,strncpy.0:101",
                     functions=["line_to_instr", "encode_offset", "encode_imm", "encode_operands", "get_reg", "get_rex_prefix", "check_registers", "assemble_asm"],
                     desc="real line_to_instr + assemble_asm on ANY tokenizer output (instr_tok by contract, look-ups by contract): an accepted line never emits more than the 20 reserve bytes and always has a valid table row; all safety checks on the encoder for arbitrary records"))
    for k in range(6):
        out.append(Lemma(name="C10.fmt_lookup.first%d" % k, src="lookup.c", entry="h_fmt_lookup", props=["C10"], defs={"FIRST": str(k)}, timeout=1800, unwind=60,
                         unwindset="h_fmt_lookup.0:8,h_fmt_lookup.1:8,h_fmt_lookup.2:8", safety=False, object_bits=12, functions=["get_opd_format"],
                         ghosts=["g_a", "g_b", "g_c", "g_d"], tier="quick" if k in (0, 4) else "thorough",
                         desc="operand-format look-up, exhaustive over every operand-type string with first letter #%d: the format returned names exactly the string, every other string gives opd_error" % k))
    # str_to_instr: the loop-contract (unbounded) form of this proof exhausts 40 GB during propositional reduction on
    # every variant tried (DESIGN 4.6); the bounded form below is the deciding one and is labelled bounded
    for n, tier in ((40, "quick"), (72, "thorough")):
        out.append(Lemma(name="C06.str_to_instr.n%d" % n, src="line.c", entry="h_str_to_instr", props=["C06", "C09", "C10", "C16"], enforce=["str_to_instr/str_to_instr__e"],
                         replace=["filter_assembly_str_fsa/filter_assembly_str_fsa__uBC", "line_to_instr/line_to_instr__c"], defs={"LINE_MAX_OBJ": str(n), "STI_FIXED": "1"},
                         timeout=2400, mem_gb=40, ignore=ART, tier=tier, unwindset="strchr.0:101,strstr.0:101,strstr.1:101,str_to_instr.0:%d,str_to_instr_wrapped_for_contract_checking.0:%d" % (n + 2, n + 2),
                         bounded="line of at most %d characters (object of %d symbolic bytes)" % (n, n + 1), functions=["str_to_instr"],
                         desc="real str_to_instr against its contract (filter and line_to_instr by contract): the returned length ends exactly behind the first LF or CR or at the NUL and no line end lies inside it (arbitrary ghost position), only the record and *read_len are written (DFCC frame: no state survives a line), a filter error is propagated; all safety checks"))
    out.append(Lemma(name="C09.line_to_instr", src="line.c", entry="h_line_to_instr", props=["C09", "C07", "C06"], enforce=["line_to_instr/line_to_instr__e"],
                     replace=["instr_tok/instr_tok__r2", R("get_opd_format"), R("str_to_instr_key"), R("str_to_reg")], timeout=1800, mem_gb=24, object_bits=12, ignore=ART,
                     unwindset="strncpy.0:101", functions=["line_to_instr", "all_opd_str_to_reg", "check_registers", "encode_offset", "encode_imm", "encode_operands"],
                     desc="real line_to_instr and encoder against its contract on ANY tokenizer output (tokenizer and look-ups by contract): writes only the record and the line buffer, success leaves a valid table row; all safety checks"))
    # ---- tokenizer chain against the record relation TOK_REL (contracts/tok_contracts.h)
    RR = lambda f: "%s/%s__r" % (f, f)
    TK = dict(src="tokrel.c", props=["C09", "C10", "C07"], ghosts=["g_off"], unwindset="find_reg.0:40,strcmp.0:8,mk.0:101,get_operand_type.0:101")
    out.append(Lemma(name="C09.tok.imm_tok", entry="h_imm_tok_r", timeout=1800, functions=["imm_tok"], tier="thorough",
                     desc="imm_tok leaf lemma for its __r contract: on any line buffer and any record, only the immediate flag, the constant and the NASM bit change", **TK))
    out.append(Lemma(name="C09.tok.imm_tok.frame", entry="h_w_imm_tok", timeout=3000, functions=["imm_tok"], tier="thorough", enforce=["w_imm_tok/w_imm_tok__e"],
                     desc="imm_tok against its contract in enforcement form (through a wrapper taking buffer and offset): DFCC frame check - only the record and the line buffer are written (no static tokenizer state)", **TK))
    out.append(Lemma(name="C09.tok.mem_tok", entry="h_mem_tok_r", timeout=3000, functions=["mem_tok"], tier="thorough",
                     desc="mem_tok leaf lemma for its __r contract: memory flag and index set, a [constant] operand has neither displacement nor index, every other slot and the encoder fields unchanged", **TK))
    out.append(Lemma(name="C09.tok.check_operand_type", entry="h_check_operand_type_r", timeout=1800, enforce=[RR("check_operand_type")],
                     replace=[RR("imm_tok"), RR("get_reg_str"), RR("mem_tok")], functions=["check_operand_type"],
                     desc="check_operand_type against its __r contract (callees by contract): from 'operands 0..k-1 tokenized, slot k typed' to 'operands 0..k tokenized' or 'immediate in slot k and nothing follows'", **TK))
    out.append(Lemma(name="C09.tok.operand_tok", entry="h_operand_tok_r", timeout=1800, enforce_rec=[RR("operand_tok")],
                     replace=[R("check_for_keyword"), RR("check_operand_type")], functions=["operand_tok"],
                     desc="operand_tok against its __r contract (--enforce-contract-rec, callees by contract): success leaves the record in the relation line_to_instr relies on (flags only with operands of the matching type, operands filled from slot 0, nothing behind an immediate, no error type)", **TK))
    out.append(Lemma(name="C09.tok.instr_tok", entry="h_instr_tok_r", timeout=1800, enforce=["instr_tok/instr_tok__r2"], replace=[RR("operand_tok")], functions=["instr_tok"],
                     desc="instr_tok against the contract line_to_instr uses (callee by contract): from a fresh record, success leaves the tokenized-record relation", **TK))
    # ---- C10: recognition / rejection lemmas on the real look-up functions and scanners
    out.append(Lemma(name="C10.T1.str_to_reg", src="reject.c", entry="h_T1_str_to_reg", props=["C10", "C01", "C04"], timeout=1800, unwind=110,
                     unwindset="find_reg.0:40,strcmp.0:8,s3_find.0:110,s3_find.1:110", ghosts=["g_s"], functions=["str_to_reg", "find_reg"],
                     desc="register-name recognition on EVERY string that fits the 6-byte register buffer: each of the x86-64 register names (S3 list: 8/16/32/64-bit, high-byte, r8-r15 forms, mm/xmm/ymm) yields the code of exactly that register, the empty string 'no register', every other string the error marker"))
    out.append(Lemma(name="C10.check_registers", src="reject.c", entry="h_check_registers", props=["C10"], timeout=300, functions=["check_registers"],
                     desc="a record with the error marker in a register or index of operands 1..3 is rejected, every other record passes (record fully symbolic)"))
    out.append(Lemma(name="C10.str_to_instr_key", src="reject.c", entry="h_str_to_instr_key", props=["C10", "C09"], timeout=1800,
                     enforce=["str_to_instr_key/str_to_instr_key__e"], replace=["strcmp/strcmp__rec"], loops_file="str_to_instr_key_loops.json", apply_loops=True, functions=["str_to_instr_key"],
                     desc="mnemonic look-up on ANY mnemonic string and any format, unbounded by loop contracts (strcmp by its assumed contract): the result is INSTR_ERROR, or a table row that lists exactly the requested operand format and belongs to the group of a row whose mnemonic equals the text looked up (so an unknown mnemonic is always rejected); reads stay inside the table and the index tables"))
    out.append(Lemma(name="C10.mem_reject.n16", src="reject.c", entry="h_mem_reject", props=["C10"], timeout=1800, ghosts=["g_m", "g_k"], defs={"MEMN": "16"},
                     functions=["get_index_reg", "copy_index_reg", "check_sib_disp"], bounded="memory operand text of exactly 16 symbolic bytes (shorter operands through an embedded NUL)",
                     desc="memory-expression rejections on symbolic operand text: an unclosed bracket is rejected; scale*index is accepted only with a scale of 1, 2, 4 or 8"))
    # ---- C10 (a): supported set == S4 (table lemma)
    import egen
    legal = egen.legal_forms()
    names = sorted(legal)
    gen = "#define S4_N %d\nstatic const char S4_MN[S4_N][15] = {%s};\nstatic const unsigned long S4_LEGAL[S4_N] = {%s};\n" % (
        len(names), ", ".join('"%s"' % m for m in names), ", ".join("0x%xUL" % sum(1 << egen.TSTR.index(t) for t in legal[m] if t in egen.TSTR) for m in names))
    def table_replay(l, failure):
        """ghost (table row, type string) -> a real line; reproduced when the real library accepts it"""
        try:
            import re as _re
            h, t = native.num(failure["ghosts"]["g_head"]), native.num(failure["ghosts"]["g_t"])
            rows = _re.findall(r'^\s*\{(\{.\\0.\}|"[a-z0-9]+"),', open(os.path.join(vf.REPO, "src", "instructions.c")).read(), _re.M)
            mn, ty = rows[h].strip('"'), egen.TSTR[t]
        except Exception as e:
            return {"reproduced": False, "note": "no ghost values (%r)" % e}
        opd = {"r": "rcx", "v": "xmm1", "y": "ymm1", "m": "[rax]", "i": "1"}
        line = mn + (" " + ", ".join(opd[c] for c in ty) if ty else "")
        rc, out = native.run_drv("create 64\nasm %s\ndump\n" % line)
        return {"reproduced": rc is not None and "asm rc=0" in (out or ""), "cmd": "printf 'create 64\\nasm %s\\ndump\\n' | %s" % (line, native.drv()[1]),
                "output": (out or "")[-600:], "fail_regex": "asm rc=0", "text": {"line": line}}
    out.append(Lemma(name="C10.table_forms", src="lookup2.c", entry="h_table_forms", props=["C10"], gen_h=gen, timeout=1800, safety=False, unwind=330,
                     unwindset="s4_find.1:%d,s4_find.0:16,h_table_forms.0:34,h_table_forms.1:3,h_table_forms.2:20,h_table_forms.3:330" % (len(names) + 2),
                     ghosts=["g_row", "g_head", "g_t"], replay=table_replay, functions=[],
                     desc="supported set as a lemma over the constant tables: every operand format offered by a row that the look-up can return for a mnemonic is an operand-kind combination S4 lists for that mnemonic (%d mnemonics, 33 type strings); concrete evaluation" % len(names)))
    # ---- T4: numerals through the real imm_tok
    T4US = "strlen.0:30,h_imm_hex.0:18,h_imm_dec.0:20,m_in_set.0:3,strtok_r.0:30,strtok_r.1:30"
    out.append(Lemma(name="C03.T4.imm_tok.hex", src="numerals.c", entry="h_imm_hex", props=["C03", "C11", "C16"], timeout=1800, unwind=30, unwindset=T4US,
                     ghosts=["g_nd", "g_neg", "g_opt", "g_val"], functions=["imm_tok"],
                     desc="real imm_tok on a symbolic numeral (reference model of strtoul): [-]0x + 1..17 symbolic hex digits: constant == value written; SMART marks the line for narrowing exactly when fewer than 16 digits are written; NASM/STRICT modes leave the options alone"))
    for nd, tier in ((9, "quick"), (19, "thorough")):
        out.append(Lemma(name="C03.T4.imm_tok.dec%d" % nd, src="numerals.c", entry="h_imm_dec", props=["C03", "C11", "C16"], timeout=3600, unwind=30, unwindset=T4US, defs={"DEC_MAX": str(nd)}, tier=tier,
                         ghosts=["g_nd", "g_neg", "g_opt", "g_val"], functions=["imm_tok"], bounded=None if nd == 19 else "decimal literals of at most %d digits" % nd,
                         desc="real imm_tok on a symbolic numeral (reference model of strtoul): [-] + 1..%d symbolic decimal digits (leading zeros included): constant == value written; SMART marks the line for narrowing" % nd))
    # ---- T3: displacement numerals through the real mem_tok
    for tag, pre, ab, ng in (("b+d", "[rax+", 0, 0), ("b-d", "[rax-", 0, 1), ("b+i*4+d", "[rax+rcx*4+", 0, 0), ("b+i*4-d", "[rax+rcx*4-", 0, 1), ("b+4*i+d", "[rax+4*rcx+", 0, 0),
                             ("abs", "[", 1, 0), ("-abs", "[-", 1, 1), ("8*i+d", "[8*rcx+", 0, 0)):      # no-base operands are documented as scale*index (+/- disp), not index*scale
        for radix in (10, 16):
            out.append(Lemma(name="C02.T3.mem_tok.%s.r%d" % (tag, radix), src="numerals.c", entry="h_mem_num", props=["C02", "C16"], timeout=1800, unwind=40,
                             defs={"MPRE": '"\\"%s\\""' % pre if False else '"%s"' % pre, "MRADIX": str(radix), "MABS": str(ab), "MNEG": str(ng)},
                             unwindset="strlen_int.0:40,find_add_mem.0:40,find_mem_const.0:40,get_index_reg.0:40,copy_index_reg.0:8,h_mem_num.0:14,h_mem_num.1:12", ghosts=["g_nd", "g_val"],
                             tier="quick" if tag in ("b+d", "abs", "b+i*4-d") else "thorough", functions=["mem_tok", "find_add_mem", "find_mem_const", "get_index_reg", "process_neg_disp", "get_mod_disp"],
                             desc="real mem_tok on '%s<numeral>]' with symbolic %s digits (reference model of strtoul): the value written reaches the record (radix from the spelling, leading zeros irrelevant)" % (pre, "decimal" if radix == 10 else "hexadecimal")))
    # ---- C16: spelling invariance of the real filter (2-run lemmas, bounded line length)
    SPB = lambda n: "line of %d symbolic characters (no terminator inside) plus the rewritten copy" % n
    for e, what in (("case", "changing the letter case of any subset of the characters does not change the filtered line"),
                    ("blank", "an extra blank at any position outside the mnemonic (indentation, around operands and commas, inside brackets, line end) does not change the filtered line"),
                    ("tail", "a trailing ;comment, %%text, CR or LF with arbitrary bytes behind it does not change the filtered line")):
        for n, tier in ((12, "quick"), (24, "thorough")):
            out.append(Lemma(name="C16.%s.n%d" % (e, n), src="spelling.c", entry="h_" + e, props=["C16"], timeout=1800 if tier == "quick" else 3600, ghosts=["g_p"], defs={"SPL": str(n)}, unwind=110,
                             tier=tier, bounded=SPB(n), functions=["filter_assembly_str_fsa"], desc="2-run lemma on the real filter: " + what))
    out.append(Lemma(name="C16.blank_after_mnemonic", src="spelling.c", entry="h_blank_after_mnemonic", props=["C16"], timeout=900, defs={"SPL": "16"}, unwind=40, unwindset="strncpy.0:16,h_blank_after_mnemonic.0:101,h_blank_after_mnemonic.1:18,h_blank_after_mnemonic.2:16", replace=["operand_tok/operand_tok__never"],
                     bounded="mnemonic text of up to 16 symbolic characters", functions=["instr_tok"],
                     desc="a blank directly behind an operand-less mnemonic: the real tokenizer yields the same record with and without it"))
    out.append(Lemma(name="C16.skip", src="spelling.c", entry="h_skip", props=["C16", "C06"], timeout=1800, ghosts=["g_p"], defs={"SPL": "16"}, unwind=110,
                     replace=["line_to_instr/line_to_instr__never"], bounded="line of 16 symbolic characters", functions=["str_to_instr", "filter_assembly_str_fsa"],
                     desc="real str_to_instr on a label line (colon behind the first letter) or a blank line: success, SKIP, whole line consumed, line_to_instr is never reached (its contract requires false)"))
    out.append(Lemma(name="C16.skip_directive", src="spelling.c", entry="h_skip_directive", props=["C16", "C06"], timeout=900, unwind=110,
                     replace=["line_to_instr/line_to_instr__never"], functions=["str_to_instr"],
                     desc="section / global / empty lines in four concrete spellings (case, indentation, comment, CRLF) are skipped and consumed"))
    return out
