/* C06/C07/C14: the line loop of assemble_all under its loop contract (contracts/assemble_all_loop.json),
 * every per-line callee replaced by its contract.  Program text: any NUL-terminated string of any
 * length (object size is the only limit); buffer: any int length. */
#include "vf.h"
#include "al_unity.h"
#include "loop_contracts.h"
void h_assemble_all(void) {
  assemblyline_t a; const char *s; int *d;
  { const char *nd; int n; g_str = nd; g_n = n; }   /* ghosts are chosen by the precondition */
#ifdef DEST_NULL
  __CPROVER_assume(d == NULL);
#else
  __CPROVER_assume(d != NULL);
#endif
  int r = assemble_all(a, s, d);
  if (r == ASM_ERROR) REACH("assemble_all error"); else REACH("assemble_all success");
}
