"""Native side: builds /repo's working tree with gcc (unity TU, so file-static functions are
reachable) and replays counterexamples / known-finding witnesses against the real code."""
import hashlib, json, os, re, subprocess, sys, threading
import vf

NATIVE = os.path.join(vf.BUILD, "native")
_lock = threading.Lock()
_built = {}

GCC_FLAGS = ["-std=gnu99", "-O1", "-g", "-w", "-D_GNU_SOURCE", "-DNATIVE_REPLAY=1",
             "-I" + os.path.join(vf.REPO, "src"), "-I" + vf.REPO,
             "-I" + os.path.join(vf.VERIF, "harness"), "-I" + os.path.join(vf.VERIF, "contracts"),
             "-I" + os.path.join(vf.VERIF, "spec"), "-I" + os.path.join(vf.VERIF, "models"),
             "-I" + os.path.join(vf.VERIF, "lemmas")]


def build(src, out, defs=()):
    """gcc-build one native tool from /repo's current tree (always rebuilt once per process)."""
    with _lock:
        key = (src, out, tuple(defs))
        if key in _built:
            return _built[key]
        os.makedirs(NATIVE, exist_ok=True)
        outp = os.path.join(NATIVE, out)
        cmd = ["gcc"] + GCC_FLAGS + list(defs) + [src, "-o", outp]
        p = subprocess.run(cmd, stdout=subprocess.PIPE, stderr=subprocess.STDOUT)
        _built[key] = (p.returncode == 0, outp, p.stdout.decode("utf-8", "replace"))
        return _built[key]


def drv():
    return build(os.path.join(vf.VERIF, "replay", "drv.c"), "drv")


def run_drv(script, timeout=20):
    ok, path, log = drv()
    if not ok:
        return None, "native build failed: " + log[-500:]
    try:
        p = subprocess.run([path], input=script.encode("latin-1"), stdout=subprocess.PIPE, stderr=subprocess.PIPE, timeout=timeout)
    except subprocess.TimeoutExpired:
        return None, "native replay timed out"
    return p.returncode, p.stdout.decode("latin-1")


def witness_still_fails(k):
    """witness={<drv script with | as line separator> => <regex that matches while the defect is present>}"""
    w = k.get("witness")
    if not w or "=>" not in w:
        return True, "no native witness recorded"
    script, rx = w.rsplit("=>", 1)
    script = script.strip().replace(" | ", "\n") + "\n"
    script = script.encode("latin-1").decode("unicode_escape")
    rc, out = run_drv(script)
    if rc is None:
        return True, out
    if rc < 0:
        out += "\nSIGNAL %d" % (-rc)
    return (re.search(rx.strip(), out, re.M) is not None), out.strip()[-200:]


def make_replay(prop, r):
    """One replay file per failing lemma.  If the lemma knows how to render its ghosts to a
    native run, do it and record whether the failure reproduces on the real code."""
    f0 = r.failed[0]
    rep = {"property": prop, "lemma": r.lemma.name, "harness": r.lemma.src, "entry": r.lemma.entry,
           "defs": r.lemma.defs,
           "failed_obligations": [{"name": f["name"], "description": f["description"],
                                   "location": f["location"], "ghosts": f["ghosts"],
                                   "trace_tail": f["trace_tail"]} for f in r.failed[:20]],
           "verifier_cmd": r.cmd, "reproduced": False, "native": None}
    if r.lemma.replay:
        for f in r.failed[:8]:
            try:
                nat = r.lemma.replay(r.lemma, f)
            except Exception as e:  # replay trouble never hides the violation
                nat = {"reproduced": False, "error": repr(e)}
            if nat and nat.get("reproduced"):
                rep["native"] = nat
                rep["reproduced"] = True
                rep["lead_obligation"] = f["name"] + ": " + f["description"]
                break
            rep["native"] = rep["native"] or nat
    h = hashlib.sha1((r.lemma.name + f0["name"] + json.dumps(f0["ghosts"], sort_keys=True)).encode()).hexdigest()[:10]
    path = os.path.join(vf.OUT, "replays", "%s-%s-%s.json" % (prop, re.sub(r"[^A-Za-z0-9_.-]", "_", r.lemma.name), h))
    rep["path"] = path
    os.makedirs(os.path.dirname(path), exist_ok=True)
    with open(path, "w") as fh:
        json.dump(rep, fh, indent=1)
    return rep


def replay_file(path):
    rep = json.load(open(path))
    print("replay of", rep["lemma"], "for", rep["property"])
    for f in rep["failed_obligations"][:5]:
        print(" obligation:", f["name"], "-", f["description"])
        if f["ghosts"]:
            print("   ghosts:", json.dumps(f["ghosts"]))
    nat = rep.get("native")
    if nat and nat.get("cmd"):
        print(" native command:", nat["cmd"])
        p = subprocess.run(nat["cmd"], shell=True, stdout=subprocess.PIPE, stderr=subprocess.STDOUT, input=(nat.get("stdin") or "").encode("latin-1"))
        out = p.stdout.decode("latin-1")
        print(out)
        bad = re.search(nat.get("fail_regex", "VIOLATED"), out) is not None
        print("REPRODUCED" if bad else "NOT-REPRODUCED")
        return 1 if bad else 0
    print(" no native input: the obligation is a frame/contract clause; verifier output is in the file")
    return 1


def num(v):
    """cbmc value text -> python int ('12u', '-3', '0x10', 'TRUE', "'a'")"""
    v = str(v).strip()
    if v in ("TRUE", "true"):
        return 1
    if v in ("FALSE", "false"):
        return 0
    m = re.match(r"^(-?\d+)[uUlL]*$", v)
    if m:
        return int(m.group(1))
    m = re.match(r"^(0x[0-9a-fA-F]+)[uUlL]*$", v)
    if m:
        return int(m.group(1), 16)
    m = re.match(r"^/\*enum\*/(\w+)$", v)
    raise ValueError("unparsable cbmc value " + v)


def harness_replay(fixed=None, render=None):
    """Replay function for harness-style lemmas: compiles the lemma's own harness natively
    (-DNATIVE_REPLAY), feeds the counterexample's ghosts, and reports whether a CHECK is
    violated (or the real code crashes) on the real build."""
    def fn(l, failure):
        ghosts = {}
        for k, v in (failure.get("ghosts") or {}).items():
            try:
                ghosts[k] = num(v)
            except ValueError:
                pass
        for k, v in (fixed or {}).items():
            ghosts[k] = v(l) if callable(v) else v
        extra = render(l, ghosts) if render else {}
        if extra is None:
            return {"reproduced": False, "note": "counterexample not renderable as real input"}
        defs = ["-D%s=%s" % (k, v) for k, v in l.defs.items()] + ["-DHARNESS_FILE=\"%s\"" % l.src, "-DENTRY=" + l.entry]
        defs += ["-DKF_%s=1" % k["id"] for k in vf.load_known() if k["state"] == "open"]
        if l.gen_h is not None:
            defs += ["-include", os.path.join(vf.lemma_dir(l), "gen.h")]
        tag = hashlib.sha1((l.name + str(sorted(l.defs.items()))).encode()).hexdigest()[:10]
        ok, path, log = build(os.path.join(vf.VERIF, "replay", "native_main.c"), "h_" + tag, defs)
        if not ok:
            return {"reproduced": False, "error": "native build failed: " + log[-800:]}
        env = dict(os.environ)
        envtxt = ""
        for k in list(extra):
            if k.startswith("__env__"):
                env[k[7:]] = extra[k]
                envtxt += "%s='%s' " % (k[7:], extra[k])
                del extra[k]
        args = ["%s=%s" % (k, v) for k, v in ghosts.items()] + ["%s=%s" % (k, v) for k, v in extra.items()]
        cmd = [path] + args
        try:
            p = subprocess.run(cmd, stdout=subprocess.PIPE, stderr=subprocess.STDOUT, timeout=20, env=env)
            out = p.stdout.decode("latin-1"); rc = p.returncode
        except subprocess.TimeoutExpired:
            out, rc = "TIMEOUT (hang)", -14
        bad = ("VIOLATED" in out) or rc < 0
        if rc == 77:
            bad = False
        return {"reproduced": bad, "cmd": envtxt + " ".join("'%s'" % c for c in cmd), "rc": rc, "output": out[-3000:],
                "fail_regex": "VIOLATED|SIGNAL", "ghosts": ghosts, "text": extra}
    return fn
