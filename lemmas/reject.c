/* C10 / C01: recognition and rejection lemmas on the real look-up and scanner functions. */
#include "vf.h"
#include <stdio.h>
#define fprintf(...) ((void)0)
#include "al_unity.h"
#define LIBC_SAFETY_ABSTRACTION 1
#include "libc.h"
#include "text_contracts.h"

/* S3: the register names of x86-64 with the code the encoder expects (mode bits | number) */
static const struct { const char *name; unsigned code; } S3[] = {
#define G(n8, n16, n32, n64, num) {n8, reg8 | num}, {n16, reg16 | num}, {n32, reg32 | num}, {n64, reg64 | num}
  G("al", "ax", "eax", "rax", 0), G("cl", "cx", "ecx", "rcx", 1), G("dl", "dx", "edx", "rdx", 2), G("bl", "bx", "ebx", "rbx", 3),
  G("spl", "sp", "esp", "rsp", 4), G("bpl", "bp", "ebp", "rbp", 5), G("sil", "si", "esi", "rsi", 6), G("dil", "di", "edi", "rdi", 7),
  {"ah", noext8 | 4}, {"ch", noext8 | 5}, {"dh", noext8 | 6}, {"bh", noext8 | 7},
#define E(n, num) {"r" #n "b", ext8 | num}, {"r" #n "w", ext16 | num}, {"r" #n "d", ext32 | num}, {"r" #n, ext64 | num}
  E(8, 8), E(9, 9), E(10, 10), E(11, 11), E(12, 12), E(13, 13), E(14, 14), E(15, 15),
#define V(n) {"xmm" #n, mmx64 | (16 + n)}, {"ymm" #n, mmx64 | (16 + n)}
  V(0), V(1), V(2), V(3), V(4), V(5), V(6), V(7), V(8), V(9), V(10), V(11), V(12), V(13), V(14), V(15),
  {"mm0", mmx64 | 16}, {"mm1", mmx64 | 17}, {"mm2", mmx64 | 18}, {"mm3", mmx64 | 19}, {"mm4", mmx64 | 20}, {"mm5", mmx64 | 21}, {"mm6", mmx64 | 22}, {"mm7", mmx64 | 23}};
#define NS3 ((int)(sizeof(S3) / sizeof(S3[0])))
static int s3_find(const char *s) {
  for (int k = 0; k < NS3; k++) { int j = 0; while (S3[k].name[j] != 0 && S3[k].name[j] == s[j]) j++; if (S3[k].name[j] == 0 && s[j] == 0) return k; }
  return -1;
}
/* T1: on EVERY string that fits the 6-byte register buffer: a register name gets its code, the
 * empty string means "no register", everything else carries the error marker */
char g_s[MAX_REG_LEN];
void h_T1_str_to_reg(void) {
  for (int i = 0; i < MAX_REG_LEN - 1; i++) { char c; g_s[i] = c; }
  g_s[MAX_REG_LEN - 1] = 0;
  unsigned r = str_to_reg(g_s);
  int k = s3_find(g_s);
  if (g_s[0] == 0) CHECK(r == reg_none, "empty string is 'no register'");
  else if (k >= 0) CHECK(r == S3[k].code, "a register name yields the code of that register");
  else CHECK((r & reg_error) == reg_error, "any other string carries the error marker");
  REACH("end");
}
/* registers with the error marker in any of the three register operands reject the line */
void h_check_registers(void) {
  struct instr I;
  int rc = check_registers(&I);
  int bad = 0;
  for (int k = 0; k < 3; k++) if ((I.opd[k].reg & reg_error) == reg_error || (I.opd[k].index & reg_error) == reg_error) bad = 1;
  CHECK((rc == EXIT_FAILURE) == (bad != 0) && (rc == EXIT_FAILURE || rc == EXIT_SUCCESS), "fails exactly when a register or index of operands 1..3 is unknown");
  REACH("end");
}
/* table look-up contract on EVERY mnemonic string */
void h_str_to_instr_key(void) { char *s; operand_format f; STATIC_ZERO_INIT_INDEX_TABLES(); asm_build_index_tables();
  { int k; ASSUME(k >= 0 && k < LETTERS_IN_ALPHABET); CHECK(instr_table_index[k] >= 0 && instr_table_index[k] <= 317, "index table entries are row numbers (or 0: letter without mnemonic)"); }
  str_to_instr_key(s, f); REACH("end"); }

/* memory-expression rejections on symbolic operand text (bounded length MEMN) */
#ifndef MEMN
#define MEMN 24
#endif
char g_m[MEMN + 1]; int g_k;
static int in4(char c) { return c == '1' || c == '2' || c == '4' || c == '8'; }
static int sep(char c) { return c == ']' || c == '+' || c == '-' || c == '['; }
void h_mem_reject(void) {
  for (int i = 0; i < MEMN; i++) { char c; g_m[i] = c; }
  g_m[MEMN] = 0; ASSUME(g_m[0] == '[');
  struct instr I = {0}; char sib[MAX_REG_LEN] = {0};
  int len = 0; while (g_m[len] != 0) len++;
  unsigned rc = get_index_reg(&I, g_m, sib);
  if (g_m[len - 1] != ']') CHECK(rc == EXIT_FAILURE, "unclosed bracket is rejected");
  /* a '*' that has an index register written after it (scale*index): the scale digit stands before it */
  GHOST_IN(int, g_k); ASSUME(g_k >= 2 && g_k < len && g_m[g_k] == '*');
  int first_star = 1; for (int i = 0; i < MEMN; i++) if (i < g_k && g_m[i] == '*') first_star = 0;
  int plus_reg_before = 0; for (int i = 1; i < MEMN; i++) if (i <= g_k && g_m[i - 1] == '+' && g_m[i] >= 'a' && g_m[i] <= 'z') plus_reg_before = 1;
  if (rc == EXIT_SUCCESS && first_star && !plus_reg_before && g_m[g_k + 1] >= 'a' && g_m[g_k + 1] <= 'z')
    CHECK(in4(g_m[g_k - 1]) && sep(g_m[g_k - 2]), "scale*index: accepted only with a scale of 1, 2, 4 or 8");
  REACH("end");
}
