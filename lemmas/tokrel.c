/* C09/C10/C07: the tokenizer chain against the record relation (contracts/tok_contracts.h).
 * Leaves (plain harness, fully symbolic 100-byte line buffer, arbitrary record):
 *   h_imm_tok_r, h_mem_tok_r  - same preconditions as the __r contracts, every postcondition CHECKed
 *                               against a copy of the record taken before the call
 * Glue (DFCC): check_operand_type, operand_tok (recursive), instr_tok enforced against their __r
 * contracts with the callees replaced by theirs. */
#include "vf.h"
#include <stdio.h>
#define fprintf(...) ((void)0)
#include "al_unity.h"
#define LIBC_SAFETY_ABSTRACTION 1
#include "libc.h"
#include "tok_contracts.h"

static char FB[FILTERED_STR_LEN];
int g_off;
static char *mk(void) {
  for (int i = 0; i < FILTERED_STR_LEN; i++) { char c; FB[i] = c; }
  FB[FILTERED_STR_LEN - 1] = '\0';
  GHOST_IN(int, g_off);
  ASSUME(g_off >= 0 && g_off < FILTERED_STR_LEN);
  g_buf = FB;
  return FB + g_off;
}
#define SAME(f) (I.f == J.f)
#define SAME_SLOT(j) (SAME(opd[j].type) && SAME(opd[j].str[0]) && SAME(opd[j].str[MAX_REG_LEN - 1]) && SAME(opd[j].sib[0]) && SAME(opd[j].sib[MAX_REG_LEN - 1]))
#define SAME_ENC (SAME(zero_byte) && SAME(is_sib_const) && SAME(is_sib) && SAME(no_base) && SAME(reduced_imm) && SAME(hex.is_66H) && SAME(hex.is_67H) && SAME(op_offset) && SAME(rd_offset) && SAME(instruction[INSTRUCTION_CHAR_LEN - 1]))
#define SAME_MEM (SAME(mem_disp) && SAME(mem_value) && SAME(mem_index) && SAME(mem_offset) && SAME(mod_disp))
void h_imm_tok_r(void) { char *p = mk(); struct instr I, J;
  ASSUME(get_operand_type(p) == 'i'); J = I;
  imm_tok(&I, p);
  CHECK(FB[FILTERED_STR_LEN - 1] == 0, "line buffer stays terminated");
  CHECK(I.imm, "immediate flag set");
  CHECK(I.assembly_opt == J.assembly_opt || I.assembly_opt == (J.assembly_opt | NASM_MOV_IMM), "options: unchanged or the NASM bit set");
  CHECK(SAME_MEM && SAME_ENC && SAME_SLOT(0) && SAME_SLOT(1) && SAME_SLOT(2) && SAME_SLOT(3), "memory flags, encoder fields and all operand slots unchanged");
  REACH("end"); }
void h_mem_tok_r(void) { char *p = mk(); struct instr I, J; int pos;
  ASSUME(pos >= 0 && pos < NUM_OF_OPD && get_operand_type(p) == 'm' && MODD_OK(I.mod_disp));
  ASSUME(I.opd[pos].sib[0] == 0 && I.opd[pos].sib[MAX_REG_LEN - 1] == 0); J = I;
  int r = mem_tok(&I, p, pos);
  CHECK(FB[FILTERED_STR_LEN - 1] == 0, "line buffer stays terminated");
  CHECK(r == EXIT_SUCCESS || r == EXIT_FAILURE, "returns success or failure");
  CHECK(I.mem_disp && I.mem_index == pos && MODD_OK(I.mod_disp), "memory flag set, memory operand index is this slot, mod value legal");
  if (r == EXIT_SUCCESS) CHECK(I.mem_value == J.mem_value || (I.mem_value && I.mem_offset == 0 && I.mod_disp == 0 && I.opd[pos].sib[0] == 0), "a [constant] operand has no displacement and no index register");
  CHECK(SAME(imm) && SAME(assembly_opt) && SAME_ENC, "immediate flag, options and encoder fields unchanged");
  for (int j = 0; j < NUM_OF_OPD; j++) if (j != pos) CHECK(SAME_SLOT(j), "other operand slots unchanged");
  CHECK(SAME(opd[pos].type) && SAME(opd[pos].str[0]) && SAME(opd[pos].str[MAX_REG_LEN - 1]) && I.opd[pos].sib[MAX_REG_LEN - 1] == 0, "this slot: type and register string unchanged, index string terminated");
  REACH("end"); }

void w_imm_tok(struct instr *instr_buffer, char *buf, int off) { imm_tok(instr_buffer, buf + off); }
void h_w_imm_tok(void) { struct instr *I; char *b; int off; w_imm_tok(I, b, off); REACH("end"); }

static struct instr GI;
void h_check_operand_type_r(void) { char *p = mk(); int pos; int k; _Bool nul;
  ASSUME(k >= 0 && k < FILTERED_STR_LEN);
  char *sv = nul ? (char *)0 : FB + k;
  int rc = check_operand_type(&GI, p, pos, sv); if (rc == EXIT_SUCCESS) REACH("success"); else REACH("failure"); }
void h_operand_tok_r(void) { char *p = mk(); int pos;
  int rc = operand_tok(&GI, p, pos); if (rc == EXIT_SUCCESS) REACH("success"); else REACH("failure"); }
void h_instr_tok_r(void) { char *p = mk();
  int rc = instr_tok(&GI, p); if (rc == EXIT_SUCCESS) REACH("success"); else REACH("failure"); }
