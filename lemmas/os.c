/* C17 / C19 / C08: the API functions that talk to the OS, over the may-fail models of
 * models/os.h.  Every OS call fails nondeterministically and independently. */
#include "vf.h"
#include <stdio.h>
#define fprintf(...) ((void)0)
#include <fcntl.h>
#define open(path, flags, mode) vf_open(path)
int vf_open(const char *path);
#include "al_unity.h"
#include "os.h"
int g_inner_rc = -1;
#include "api_contracts.h"

/* C17/C12: creation.  Any failure => NULL, nothing leaked in a half-built state; success => the
 * documented initial state */
void h_create(void) {
  uint8_t *buf; int len; _Bool ext;
  uint8_t ub[32];
  assemblyline_t al = asm_create_instance(ext ? ub : NULL, ext ? 32 : len);
  if (al == NULL) { REACH("create returns NULL"); return; }
  CHECK(al->offset == 0 && al->assembly_opt == (SMART_MOV_IMM | NASM_SIB_INDEX_BASE_SWAP | NASM_SIB_NO_BASE), "new instance: offset 0, options SMART / NASM / NASM");
  CHECK(al->assembly_mode == ASSEMBLE && al->chunk_size == 1 && !al->debug, "new instance: plain assembly mode");
  CHECK(ext ? (al->external && al->buffer == ub && al->buffer_len == 32) : (!al->external && al->buffer != NULL && al->buffer_len == MEM_BUFFER + BUFFER_TOLERANCE), "buffer attached as documented");
  int rc = asm_destroy_instance(al);
  CHECK(rc == EXIT_SUCCESS, "destroy succeeds also when munmap fails");
  REACH("create/destroy end");
}

/* C08/C17: growth of the internal buffer */
void h_grow(void) {
  struct assemblyline A; assemblyline_t al = &A;
  int n; __CPROVER_assume(n >= BUFFER_TOLERANCE && n <= 60000);
  A.external = 0; A.buffer_len = n; A.buffer = malloc(n); __CPROVER_assume(A.buffer != NULL);
  int pos; __CPROVER_assume(pos >= 0 && pos <= n);
  __CPROVER_assume(g_probe < (size_t)n); uint8_t before = A.buffer[g_probe]; uint8_t *oldp = A.buffer;
  int rc = check_len_or_resize(al, pos);
  if (rc == EXIT_SUCCESS) {
    CHECK((long)pos + BUFFER_TOLERANCE <= (long)A.buffer_len, "after a successful check there is room for 20 bytes");
    CHECK(A.buffer[g_probe] == before, "growth preserves every earlier byte (arbitrary position)");
    CHECK(A.buffer_len == n || A.buffer_len == n + MEM_BUFFER, "length unchanged or grown by the quantum");
    REACH("grow success");
  } else {
    CHECK(A.buffer == oldp && A.buffer_len == n && A.buffer[g_probe] == before, "failed growth leaves buffer, length and contents intact");
    REACH("grow failure");
  }
}

/* C19/C17: file entry point against the in-memory one (asm_assemble_str by contract) */
#define OS_GHOST_INIT g_read_total = 0; g_inner_kind = 0; g_inner_calls = 0; g_inner_chunk = 0; g_inner_dest = 0; g_fault = 0; g_munmap_calls = 0; g_munmap_len = 0; g_munmap_ptr = 0; g_map_size = 0; g_inner_rc = -1; \
  g_fwrite_calls = 0; g_fwrite_ptr = 0; g_fwrite_size = 0; g_fwrite_n = 0; g_fwrite_ret = 0; g_fclose_ret = -2; g_fopen_ok = 0; g_mremap_ok = 0;
#define FILE_COMMON OS_GHOST_INIT \
  struct assemblyline A; assemblyline_t al = &A; char *name; \
  __CPROVER_assume(g_file_len <= 3 * OS_PAGE); \
  KF_FILE_CARVE
#if defined(KF_C19_PAGEMULT) && defined(KF_C19_EMPTY)
#define KF_FILE_CARVE __CPROVER_assume(g_file_len % OS_PAGE != 0);
#elif defined(KF_C19_PAGEMULT)
#define KF_FILE_CARVE __CPROVER_assume(g_file_len == 0 || g_file_len % OS_PAGE != 0);
#elif defined(KF_C19_EMPTY)
#define KF_FILE_CARVE __CPROVER_assume(g_file_len != 0);
#else
#define KF_FILE_CARVE
#endif
#define FILE_POST(rc) \
  CHECK(rc == EXIT_SUCCESS || rc == EXIT_FAILURE, "documented return values"); \
  if (g_munmap_calls) CHECK(g_munmap_calls == 1 && g_munmap_len == g_map_size, "the mapping is released once, with the mapped length"); \
  if (rc == EXIT_FAILURE && !g_fault && g_inner_rc != EXIT_FAILURE) CHECK(0, "without an OS fault the file call fails only when the in-memory call on its contents fails (also for an empty file)"); \
  if (rc == EXIT_SUCCESS) REACH("file success"); else REACH("file failure");
void h_assemble_file(void) { FILE_COMMON
  int rc = asm_assemble_file(al, name);
  if (g_inner_calls) CHECK(g_inner_calls == 1 && g_inner_kind == 1, "asm_assemble_file assembles the contents with asm_assemble_str, once (same mode and options as the in-memory call)");
  FILE_POST(rc) }
void h_assemble_file_counting(void) { FILE_COMMON int c; int dv; int *d = &dv;
  int rc = asm_assemble_file_counting_chunks(al, name, c, d);
  if (g_inner_calls) CHECK(g_inner_calls == 1 && g_inner_kind == 2 && g_inner_chunk == c && g_inner_dest == d, "the counting file call assembles the contents with asm_assemble_string_counting_chunks, once, with the same chunk size and result pointer");
  FILE_POST(rc) }

/* C19/C17: binary output */
void h_bin_file(void) {
  struct assemblyline A; assemblyline_t al = &A; char *name;
  __CPROVER_assume(A.offset >= 0 && A.offset <= 4096); A.buffer = malloc(4096); __CPROVER_assume(A.buffer != NULL);
  int rc = asm_create_bin_file(al, name);
  CHECK(rc == EXIT_SUCCESS || rc == EXIT_FAILURE, "documented return values");
  if (rc == EXIT_SUCCESS) {
    CHECK(g_fopen_ok, "success only if the file could be created");
    CHECK(g_fwrite_calls == 1 && g_fwrite_ptr == A.buffer && g_fwrite_size * g_fwrite_n == (size_t)A.offset, "exactly the bytes [0, offset) are written");
    CHECK(g_fwrite_ret == g_fwrite_n, "success only if the complete code was written");
    CHECK(g_fclose_ret == 0, "success only if the file was closed without error");
    REACH("bin success");
  } else REACH("bin failure");
}

/* C08: one plain step on the library-managed buffer: whatever the position, the step either
 * grows the buffer (mremap may move it) and then writes inside the NEW buffer, or fails only
 * because mremap failed; bytes written earlier (arbitrary position g_probe < p) are preserved */
#include "core_contracts.h"
void h_assemble_internal(void) { OS_GHOST_INIT
  struct assemblyline A; assemblyline_t al = &A; struct instr I; unsigned p;
  int n; __CPROVER_assume(n >= BUFFER_TOLERANCE && n <= 60000);
  A.external = 0; A.buffer_len = n; A.buffer = malloc(n); __CPROVER_assume(A.buffer != NULL); A.debug = 0;
  __CPROVER_assume(p <= (unsigned)n && rec_inv(&I)); __CPROVER_assume(1 <= g_asm_len && g_asm_len <= BUFFER_TOLERANCE);
  __CPROVER_assume(g_probe < p); uint8_t before = A.buffer[g_probe]; unsigned p0 = p;
  int rc = assemble(al, &I, &p);
  if (rc == EXIT_SUCCESS) {
    CHECK(p == p0 + g_asm_len && p <= (unsigned)A.buffer_len, "position advances by the instruction length inside the (possibly grown) buffer");
    CHECK(A.buffer[g_probe] == before, "earlier bytes are preserved across growth");
    REACH("internal step success");
  } else {
    CHECK(g_fault, "on the library-managed buffer a step fails only when the OS refuses to grow it");
    CHECK(p == p0 && A.buffer[g_probe] == before && A.buffer_len == n, "a failed step leaves position, length and earlier bytes intact");
    REACH("internal step failure");
  }
}

/* C08: the counting and the fitting step on the library-managed buffer (chunk size symbolic: the
 * claims here do not depend on the chunk arithmetic).  The fitting step checks room again after
 * padding; every write must go through the buffer pointer re-read after that check. */
#ifdef FITN
#define INTERNAL_N_OK(n) ((n) == FITN)    /* the library-managed buffer has length 20 + 6000 k */
#else
#define INTERNAL_N_OK(n) ((n) >= BUFFER_TOLERANCE && (n) <= 20000)
#endif
#define INTERNAL_COMMON OS_GHOST_INIT \
  struct assemblyline A; assemblyline_t al = &A; struct instr I; unsigned p; \
  int n; __CPROVER_assume(INTERNAL_N_OK(n)); \
  A.external = 0; A.buffer_len = n; A.buffer = malloc(n); __CPROVER_assume(A.buffer != NULL); A.debug = 0; \
  __CPROVER_assume(A.chunk_size >= 2); \
  __CPROVER_assume(p <= (unsigned)n && rec_inv(&I)); __CPROVER_assume(1 <= g_asm_len && g_asm_len <= BUFFER_TOLERANCE); \
  __CPROVER_assume(g_probe < p); uint8_t before = A.buffer[g_probe]; unsigned p0 = p;
void h_counting_internal(void) { INTERNAL_COMMON int cnt; __CPROVER_assume(cnt >= 0 && cnt < 1000);
  int rc = assemble_counting_chunks(al, &I, &p, &cnt);
  if (rc == EXIT_SUCCESS) {
    CHECK(p == p0 + g_asm_len && p <= (unsigned)A.buffer_len, "position advances by the instruction length inside the (possibly grown) buffer");
    CHECK(A.buffer[g_probe] == before, "earlier bytes are preserved across growth");
    REACH("internal counting step success");
  } else {
    CHECK(g_fault, "on the library-managed buffer a step fails only when the OS refuses to grow it");
    CHECK(p == p0 && A.buffer[g_probe] == before && A.buffer_len == n, "a failed step leaves position, length and earlier bytes intact");
    REACH("internal counting step failure");
  }
}
#ifndef FITC
#define FITC 16
#endif
void h_fitting_internal(void) { INTERNAL_COMMON
  __CPROVER_assume(A.chunk_size == FITC);     /* division by a symbolic chunk size does not close: enumerated */
  int rc = assemble_with_chunk_fitting(al, &I, &p);
  CHECK(A.buffer[g_probe] == before, "earlier bytes are preserved across growth and padding");
  CHECK(p <= (unsigned)A.buffer_len, "the position stays inside the (possibly grown) buffer");
  if (rc == EXIT_SUCCESS) {
    CHECK(p >= p0 + g_asm_len && p - p0 < 2 * BUFFER_TOLERANCE, "the instruction is placed at or behind the old position");
    REACH("internal fitting step success");
  } else {
    CHECK(g_fault, "on the library-managed buffer a step fails only when the OS refuses to grow it");
    REACH("internal fitting step failure");
  }
}
