/* E-lemma: the real text->record->bytes pipeline for ONE concrete skeleton line, with every
 * register, displacement, immediate and option bit symbolic, against the spec decoder S1.
 *
 *   subject : real str_to_instr (filter + instr_tok + line_to_instr + encoder) and real
 *             assemble_asm, bodies inlined down to the leaves
 *   ghosts  : str_to_reg is replaced (DFCC) by a ghost-parameterised contract: the placeholder
 *             register in slot k denotes ANY register of the kinds allowed for that slot;
 *             strtoul by a ghost model: the placeholder numeral denotes ANY value of its
 *             spelling class.  T-lemmas (tlemma.c) justify both replacements.
 *   oracle  : S1 decodes the emitted bytes; the decoded operation, registers, sizes, address
 *             and immediate must equal what the ghosts say was written.
 * The per-shape parts (LINE, E_CONSTRAIN, E_EXPECT) come from a generated header (gen.h),
 * see lemmas/egen.py.  The same file is compiled natively for replay: there LINE is the real
 * text rendered from the counterexample and the real str_to_reg/strtoul run. */
#include "x86dec.h"
#include "vf.h"
#ifndef NATIVE_REPLAY
/* ghost model of strtoul: must precede the repo sources only in name; defined below */
#endif
#include "al_unity.h"
#ifndef NATIVE_REPLAY
#include "libc.h"
#endif

/* ---- ghosts ---- */
unsigned g_opt;                       /* assembly option bits 0..15 */
int g_kind[4], g_num[4];              /* register written in operand slot k: S1 kind and number */
int g_bkind, g_bnum, g_ikind, g_inum; /* base / index register of the memory operand */
unsigned long g_dmag; int g_dneg;     /* displacement magnitude as written and its sign */
unsigned long g_imag; int g_ineg;     /* immediate magnitude as written and its sign */
int g_rc; unsigned g_n;               /* results, for the trace */

/* ---- repo encoding of a register (the interface T1 pins down) ---- */
static unsigned mk_code(int kind, int n) {
  switch (kind) {
  case S1_K_R8:  return n < 8 ? (reg8 | n) : (ext8 | n);
  case S1_K_R8H: return noext8 | n;
  case S1_K_R16: return n < 8 ? (reg16 | n) : (ext16 | n);
  case S1_K_R32: return n < 8 ? (reg32 | n) : (ext32 | n);
  case S1_K_R64: return n < 8 ? (reg64 | n) : (ext64 | n);
  case S1_K_MM: case S1_K_XMM: case S1_K_YMM: return mmx64 | (16 + n);
  default: return reg_none;
  }
}
static int kind_ok(int kind, int n, unsigned mask) {
  if (kind < 0 || kind > 12) return 0;
  if (!((mask >> kind) & 1)) return 0;
  switch (kind) {
  case S1_K_R8H: return n >= 4 && n <= 7;
  case S1_K_MM: return n >= 0 && n <= 7;
  case S1_K_NONE: return 0;
  default: return n >= 0 && n <= 15;
  }
}
static int kind_bits(int kind) {
  return kind == S1_K_R8 || kind == S1_K_R8H ? 8 : kind == S1_K_R16 ? 16 : kind == S1_K_R32 ? 32 : kind == S1_K_R64 ? 64 :
         kind == S1_K_MM ? 64 : kind == S1_K_XMM ? 128 : kind == S1_K_YMM ? 256 : 0;
}
#define M(k) (1u << (k))
#define GPR8 (M(S1_K_R8) | M(S1_K_R8H))
#define GPRV (M(S1_K_R16) | M(S1_K_R32) | M(S1_K_R64))
#define GPRALL (GPR8 | GPRV)

#ifndef NATIVE_REPLAY
/* ghost contract of str_to_reg: placeholder "<c><slot letter>": a..d operand slots, p base, q index */
unsigned g_code_a, g_code_b, g_code_c, g_code_d, g_code_p, g_code_q;
asm_reg str_to_reg__g(char *reg)
  __CPROVER_requires(__CPROVER_r_ok(reg, 2))
  __CPROVER_assigns()
  __CPROVER_ensures(reg[0] == '\0' ==> __CPROVER_return_value == reg_none)
  __CPROVER_ensures(reg[0] != '\0' ==> __CPROVER_return_value ==
      (reg[1] == 'a' ? g_code_a : reg[1] == 'b' ? g_code_b : reg[1] == 'c' ? g_code_c : reg[1] == 'd' ? g_code_d :
       reg[1] == 'p' ? g_code_p : reg[1] == 'q' ? g_code_q : (unsigned)reg_error));
/* ghost model of strtoul: numerals whose first digit after an optional 0x is '1' are the
 * displacement placeholder, '2' the immediate placeholder; the literal 1 of the shift-by-one forms is 1;
 * a leading '-' negates (as strtoul does) */
unsigned long strtoul(const char *s, char **e, int base) {
  int neg = 0, i = 0;
  if (s[i] == '-') { neg = 1; i++; }
  if (s[i] == '0' && s[i + 1] == 'x') i += 2;
  unsigned long v;
  if (s[i] == '1' && (s[i + 1] == 'd' || s[i + 1] == '9')) v = g_dmag;          /* 0x1d / 19: displacement placeholder */
  else if ((s[i] == '2' && s[i + 1] == 'e') || (s[i] == '4' && s[i + 1] == '6') || s[i] == '0') v = g_imag;   /* 0x2e / 46 / 0x00..2e: immediate placeholder */
  else { __CPROVER_assert(s[i] == '1' && !(s[i + 1] >= '0' && s[i + 1] <= '9'), "ghost strtoul: only placeholders and the literal 1 occur"); v = 1; }
  return neg ? -v : v;
}
#endif

static uint8_t out[40];
static struct s1_insn DI;

/* decoded register operand i is the register written in slot k */
#define REG_IS(i, k) (DI.opd[i].kind == g_kind[k] && DI.opd[i].reg == g_num[k])
#define OPD_KIND(i, kd) (DI.opd[i].kind == (kd))
/* written 64-bit two's-complement values */
#define V_IMM ((unsigned long)(g_ineg ? -g_imag : g_imag))
#define V_DISP ((long)(g_dneg ? -(long)g_dmag : (long)g_dmag))
#define MASKW(w) ((w) >= 64 ? ~0ul : ((1ul << (w)) - 1))
/* v is representable at width w as unsigned or as signed */
#define FITS(v, w) ((w) >= 64 || (v) <= MASKW(w) || (v) >= ~MASKW((w) - 1))
#define FITS_S(v, w) ((v) <= MASKW((w) - 1) || (v) >= ~MASKW((w) - 1))

/* effective address as a linear form over the 16 registers: coefficient of each register and the
 * displacement; address size.  Written side from the ghosts, encoded side from S1. */
static int mem_same_address(int has_base, int has_index, int scale) {
  int k;
  for (k = 0; k < 16; k++) {
    long cw = 0, cd = 0;
    if (has_base && g_bnum == k) cw += 1;
    if (has_index && g_inum == k) cw += scale;
    if (DI.has_base && DI.base == k) cd += 1;
    if (DI.has_index && DI.index == k) cd += DI.scale;
    if (cw != cd) return 0;
  }
  return 1;
}

/* carve-outs of open known findings: with the finding open, the class is restricted to the immediates the defect does
 * not touch (those that fit a sign-extended imm8), so every neighbouring case is still proved */
#ifdef KF_C03_MEMWORD_IMM
#define KF_C03_MEMWORD_IMM_CARVE ASSUME(FITS_S(V_IMM, 8));
#else
#define KF_C03_MEMWORD_IMM_CARVE
#endif
#ifdef KF_C03_NOBASE_IMM
#define KF_C03_NOBASE_IMM_CARVE ASSUME(FITS_S(V_IMM, 8));
#else
#define KF_C03_NOBASE_IMM_CARVE
#endif

void h_E(void) {
  int k;
  GHOST_IN(unsigned, g_opt); ASSUME(g_opt < 16 && (g_opt & 3) != 3);   /* the 12 reachable option combinations (C12) */
  GHOST_IN(int, g_kind[0]); GHOST_IN(int, g_num[0]); GHOST_IN(int, g_kind[1]); GHOST_IN(int, g_num[1]);
  GHOST_IN(int, g_kind[2]); GHOST_IN(int, g_num[2]); GHOST_IN(int, g_kind[3]); GHOST_IN(int, g_num[3]);
  GHOST_IN(int, g_bkind); GHOST_IN(int, g_bnum); GHOST_IN(int, g_ikind); GHOST_IN(int, g_inum);
  GHOST_IN(unsigned long, g_dmag); GHOST_IN(int, g_dneg); GHOST_IN(unsigned long, g_imag); GHOST_IN(int, g_ineg);
  E_CONSTRAIN
#ifndef NATIVE_REPLAY
  g_code_a = mk_code(g_kind[0], g_num[0]); g_code_b = mk_code(g_kind[1], g_num[1]);
  g_code_c = mk_code(g_kind[2], g_num[2]); g_code_d = mk_code(g_kind[3], g_num[3]);
  g_code_p = mk_code(g_bkind, g_bnum); g_code_q = mk_code(g_ikind, g_inum);
  char line[] = LINE;
#else
  char line[256]; { const char *t = getenv("VF_LINE"); if (!t) { fprintf(stderr, "VF_LINE missing\n"); exit(3); } strncpy(line, t, 255); line[255] = 0; printf("LINE %s\n", line); }
#endif
  asm_build_index_tables();          /* what asm_create_instance does; the look-ups depend on it */
  struct instr I = {0};
  I.assembly_opt = (uint8_t)g_opt;
  int len = 0;
  for (k = 0; k < 40; k++) out[k] = 0xcc;
  g_rc = str_to_instr(&I, line, &len);
  REACH("line parsed");
#ifndef E_MUST_ACCEPT
#define E_MUST_ACCEPT 1
#define E_MUST_REJECT 0
#endif
#ifdef E_EXPECT_REJECT
  CHECK(g_rc != EXIT_SUCCESS, "line is rejected");
  REACH("reject lemma end");
  return;
#else
  if (E_MUST_ACCEPT) CHECK(g_rc == EXIT_SUCCESS, "supported line is accepted");
  if (E_MUST_REJECT) CHECK(g_rc != EXIT_SUCCESS, "out-of-range rel8 is rejected, not wrapped");
  if (g_rc != EXIT_SUCCESS) return;
  CHECK(I.key != SKIP, "line is not skipped");
  g_n = assemble_asm(&I, out);
#ifdef NATIVE_REPLAY
  printf("BYTES"); for (k = 0; k < (int)g_n && k < 40; k++) printf(" %02x", out[k]); printf("\n");
#endif
  CHECK(g_n >= 1 && g_n <= 15, "length is that of one x86 instruction (1..15)");
  s1_decode(out, (int)g_n, &DI);
  CHECK(DI.ok, "bytes decode (S1) as an instruction of the supported set");
  CHECK(DI.ok && DI.len == (int)g_n, "exactly one instruction: decoded length equals emitted length");
  if (!DI.ok) return;
  E_EXPECT
#ifndef E_MAY_ALWAYS_REJECT
  REACH("E-lemma end");
#endif
#endif
}
