/* Loop-level contracts: assemble_all's per-line callees as seen from the loop (chunk size free),
 * the loop contract itself is in contracts/assemble_all_loop.json. */
#ifndef LOOP_CONTRACTS_H
#define LOOP_CONTRACTS_H
#ifndef NATIVE_REPLAY
#include "rec_inv.h"

/* ghosts: program text g_str[0..g_n] with g_str[g_n] == 0; counters */
#define TEXT_MAX 1000000   /* CBMC object-size choice, not a property of the proof */
const char *g_str; int g_n;
int g_cross;                 /* number of boundary-crossing steps so far in this call (C14) */
int g_steps;                 /* number of step calls so far */

#define IN_TEXT(p) (__CPROVER_same_object((p), g_str) && __CPROVER_r_ok((p), 1) && g_str <= (p) && (p) <= g_str + g_n)

/* one line: reads only inside the text, never beyond its NUL; fills *instr_data and nothing else;
 * the position advances exactly to the start of the next line (postcondition macro shared with the
 * enforcement form str_to_instr__e in line_contracts.h) */
#include "line_contracts.h"
int str_to_instr__c(struct instr *instr_data, const char unfiltered_str[], int *read_len)
  __CPROVER_requires(__CPROVER_rw_ok(instr_data, sizeof(struct instr)) && REC_FRESH(instr_data) && __CPROVER_rw_ok(read_len, sizeof(int)))   /* every line starts from a zeroed record */
  __CPROVER_requires(IN_TEXT(unfiltered_str) && unfiltered_str < g_str + g_n && unfiltered_str[0] != '\0')
  __CPROVER_assigns(__CPROVER_object_whole(instr_data), *read_len)
  /* the line loop needs the range clauses only (the position clauses of STR_TO_INSTR_POST are what makes
   * consecutive iterations see consecutive lines; they are proved on the real body in C06.str_to_instr) */
  STR_TO_INSTR_POST_RANGE(instr_data, unfiltered_str, read_len, (g_str + g_n) - unfiltered_str);

#define LSTEP_PRE(VA, V, al, I, buf_pos)                                                              \
  __CPROVER_requires(VA(al, sizeof(struct assemblyline)) && al->external && al->buffer_len >= 0) \
  __CPROVER_requires(V(al->buffer, al->buffer_len))                               \
  __CPROVER_requires(V(I, sizeof(struct instr)) && rec_inv(I))                    \
  __CPROVER_requires(V(buf_pos, sizeof(unsigned)) && *buf_pos <= (unsigned)al->buffer_len) \
  __CPROVER_requires(g_steps >= 0 && g_steps < 0x7fffffff)
/* the ghost counters g_steps / g_cross are bookkeeping of the loop proof: the usage form updates them (GH(x) = x), the
 * enforcement form, proved on the real body, has the same clauses without them (GH(x) = nothing, GE(c) = true) */
#define GH_COMMA ,
#define GH_ON(x) x
#define GH_OFF(x)
#define GE_ON(c) (c)
#define GE_OFF(c) 1
#define LROOM(al, p) ((long)(p) + BUFFER_TOLERANCE <= (long)(al)->buffer_len)

#define ASSEMBLE_L_CONTRACT(VA, V, GH, GE) \
  LSTEP_PRE(VA, V, al, I, buf_pos) \
  __CPROVER_assigns(*buf_pos, GH(g_steps GH_COMMA) __CPROVER_object_whole(I); \
        LROOM(al, *buf_pos) : __CPROVER_object_upto(al->buffer + *buf_pos, BUFFER_TOLERANCE)) \
  __CPROVER_ensures(__CPROVER_return_value == EXIT_SUCCESS || __CPROVER_return_value == EXIT_FAILURE) \
  __CPROVER_ensures((__CPROVER_return_value == EXIT_FAILURE) == !LROOM(al, __CPROVER_old(*buf_pos))) \
  __CPROVER_ensures(__CPROVER_return_value == EXIT_FAILURE ==> *buf_pos == __CPROVER_old(*buf_pos)) \
  __CPROVER_ensures(__CPROVER_return_value == EXIT_SUCCESS ==> \
        __CPROVER_old(*buf_pos) < *buf_pos && *buf_pos <= __CPROVER_old(*buf_pos) + BUFFER_TOLERANCE && \
        *buf_pos <= (unsigned)al->buffer_len) \
  __CPROVER_ensures(GE(g_steps == __CPROVER_old(g_steps) + 1))
int assemble__l(assemblyline_t al, struct instr *I, unsigned int *buf_pos) ASSEMBLE_L_CONTRACT(__CPROVER_rw_ok, __CPROVER_rw_ok, GH_ON, GE_ON);      /* usage form (inside the line loop) */
int assemble__le(assemblyline_t al, struct instr *I, unsigned int *buf_pos) ASSEMBLE_L_CONTRACT(__CPROVER_is_fresh, __CPROVER_is_fresh, GH_OFF, GE_OFF);   /* enforcement form */

#define ASSEMBLE_COUNTING_CHUNKS_L_CONTRACT(VA, V, GH, GE) \
  LSTEP_PRE(VA, V, al, I, buf_pos) \
  __CPROVER_requires(al->chunk_size >= 2 && GE(g_cross >= 0 && g_cross < 0x7fffffff)) \
  __CPROVER_requires(chunk_brks == NULL || (V(chunk_brks, sizeof(int)) && *chunk_brks >= 0 && *chunk_brks < 0x7fffffff)) \
  __CPROVER_assigns(*buf_pos, GH(g_steps GH_COMMA g_cross GH_COMMA) __CPROVER_object_whole(I); \
        chunk_brks != NULL : *chunk_brks; \
        LROOM(al, *buf_pos) : __CPROVER_object_upto(al->buffer + *buf_pos, BUFFER_TOLERANCE)) \
  __CPROVER_ensures(__CPROVER_return_value == EXIT_SUCCESS || __CPROVER_return_value == EXIT_FAILURE) \
  __CPROVER_ensures(chunk_brks == NULL ==> __CPROVER_return_value == EXIT_FAILURE) \
  __CPROVER_ensures(__CPROVER_return_value == EXIT_FAILURE ==> *buf_pos == __CPROVER_old(*buf_pos) && GE(g_cross == __CPROVER_old(g_cross)) && (chunk_brks == NULL || *chunk_brks == __CPROVER_old(*chunk_brks))) \
  __CPROVER_ensures(__CPROVER_return_value == EXIT_SUCCESS ==> \
        __CPROVER_old(*buf_pos) < *buf_pos && *buf_pos <= __CPROVER_old(*buf_pos) + BUFFER_TOLERANCE && \
        *buf_pos <= (unsigned)al->buffer_len) \
  __CPROVER_ensures((GE(g_cross == __CPROVER_old(g_cross)) && (chunk_brks == NULL || *chunk_brks == __CPROVER_old(*chunk_brks))) || \
                    (GE(g_cross == __CPROVER_old(g_cross) + 1) && chunk_brks != NULL && *chunk_brks == __CPROVER_old(*chunk_brks) + 1)) \
  __CPROVER_ensures(GE(g_steps == __CPROVER_old(g_steps) + 1))
int assemble_counting_chunks__l(assemblyline_t al, struct instr *I, unsigned int *buf_pos, int *chunk_brks) ASSEMBLE_COUNTING_CHUNKS_L_CONTRACT(__CPROVER_rw_ok, __CPROVER_rw_ok, GH_ON, GE_ON);      /* usage form (inside the line loop) */
int assemble_counting_chunks__le(assemblyline_t al, struct instr *I, unsigned int *buf_pos, int *chunk_brks) ASSEMBLE_COUNTING_CHUNKS_L_CONTRACT(__CPROVER_is_fresh, __CPROVER_is_fresh, GH_OFF, GE_OFF);   /* enforcement form */

#define ASSEMBLE_WITH_CHUNK_FITTING_L_CONTRACT(VA, V, GH, GE) \
  LSTEP_PRE(VA, V, al, I, buf_pos) \
  __CPROVER_requires(al->chunk_size >= 2) \
  __CPROVER_assigns(*buf_pos, GH(g_steps GH_COMMA) __CPROVER_object_whole(I); \
        LROOM(al, *buf_pos) : __CPROVER_object_from(al->buffer + *buf_pos)) \
  __CPROVER_ensures(__CPROVER_return_value == EXIT_SUCCESS || __CPROVER_return_value == EXIT_FAILURE) \
  __CPROVER_ensures(!LROOM(al, __CPROVER_old(*buf_pos)) ==> __CPROVER_return_value == EXIT_FAILURE && *buf_pos == __CPROVER_old(*buf_pos)) \
  __CPROVER_ensures(*buf_pos <= (unsigned)al->buffer_len && *buf_pos >= __CPROVER_old(*buf_pos)) \
  __CPROVER_ensures(__CPROVER_return_value == EXIT_SUCCESS ==> *buf_pos > __CPROVER_old(*buf_pos)) \
  __CPROVER_ensures(GE(g_steps == __CPROVER_old(g_steps) + 1))
int assemble_with_chunk_fitting__l(assemblyline_t al, struct instr *I, unsigned int *buf_pos) ASSEMBLE_WITH_CHUNK_FITTING_L_CONTRACT(__CPROVER_rw_ok, __CPROVER_rw_ok, GH_ON, GE_ON);      /* usage form (inside the line loop) */
int assemble_with_chunk_fitting__le(assemblyline_t al, struct instr *I, unsigned int *buf_pos) ASSEMBLE_WITH_CHUNK_FITTING_L_CONTRACT(__CPROVER_rw_ok, __CPROVER_is_fresh, GH_OFF, GE_OFF);   /* enforcement form; the instance is built by the harness so that its chunk size is a literal */

/* Whole call.  inst_inv in; the result is ASM_ERROR or a position in [offset, buffer_len];
 * nothing before buffer+offset and nothing outside the buffer is written; the instance itself
 * is not written at all (frame), *dest is the number of crossing steps of THIS call. */
#define INST_INV(al) ((al)->buffer_len >= 0 && (al)->offset >= 0 && (al)->offset <= (al)->buffer_len && \
   ((al)->assembly_mode == ASSEMBLE || (al)->assembly_mode == CHUNK_COUNT || (al)->assembly_mode == CHUNK_FITTING) && \
   ((al)->assembly_mode == ASSEMBLE || (al)->chunk_size >= 2))

/* debug printer: reads the code written so far, writes nothing (proved separately with its own loop contract) */
void debug_with_chunksize__c(uint8_t *buf, unsigned int opcode_pos, const size_t chunk_size)
  __CPROVER_requires(chunk_size >= 1 && __CPROVER_r_ok(buf, opcode_pos))
  __CPROVER_assigns();

int assemble_all__c(assemblyline_t al, const char *str, int *dest)
  __CPROVER_requires(__CPROVER_is_fresh(al, sizeof(struct assemblyline)) && al->external && INST_INV(al))
  __CPROVER_requires(__CPROVER_is_fresh(al->buffer, al->buffer_len))
  __CPROVER_requires(g_n >= 0 && g_n <= TEXT_MAX && __CPROVER_is_fresh(str, g_n + 1) && g_str == str && str[g_n] == '\0')
  __CPROVER_requires(dest == NULL || __CPROVER_is_fresh(dest, sizeof(int)))
  __CPROVER_requires(g_cross == 0 && g_steps == 0)
  __CPROVER_assigns(g_cross, g_steps; dest != NULL : *dest; __CPROVER_object_from(al->buffer + al->offset))
  __CPROVER_ensures(__CPROVER_return_value == ASM_ERROR ||
        (__CPROVER_return_value >= al->offset && __CPROVER_return_value <= al->buffer_len))
  __CPROVER_ensures(dest != NULL ==> *dest == g_cross)
  __CPROVER_ensures(al->assembly_mode != CHUNK_COUNT ==> g_cross == 0)
  __CPROVER_ensures(g_cross >= 0 && g_cross <= g_steps)
  __CPROVER_ensures(__CPROVER_return_value != ASM_ERROR && g_steps == 0 ==> __CPROVER_return_value == al->offset);
#endif
#endif
