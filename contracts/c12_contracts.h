/* C12: documented semantics of the option setters (src/assemblyline.h:171-261, man/asm_set_all.3).
 * Bits: 0 NASM mov-imm, 1 SMART mov-imm, 2 index/base swap, 3 no-base. */
#ifndef C12_CONTRACTS_H
#define C12_CONTRACTS_H
#define SPEC_MOV(o, opt)    ((uint8_t)((opt) == NASM ? (((o) | 1) & ~2) : (opt) == STRICT ? ((o) & ~3) : (opt) == SMART ? (((o) | 2) & ~1) : (o)))
#define SPEC_SWAP(o, opt)   ((uint8_t)((opt) == NASM ? ((o) | 4) : (opt) == STRICT ? ((o) & ~4) : (o)))
#define SPEC_NOBASE(o, opt) ((uint8_t)((opt) == NASM ? ((o) | 8) : (opt) == STRICT ? ((o) & ~8) : (o)))
#define SPEC_SIB(o, opt)    ((uint8_t)(((opt) == NASM || (opt) == STRICT) ? SPEC_NOBASE(SPEC_SWAP(o, opt), opt) : (o)))
#define SPEC_ALL(o, opt)    ((uint8_t)(((opt) == NASM || (opt) == STRICT) ? SPEC_MOV(SPEC_SIB(o, opt), opt) : (opt) == SMART ? SPEC_MOV(o, SMART) : (o)))

#define SETTER_CONTRACT(fn, SPEC)                                                   \
  void fn##__c(assemblyline_t al, enum asm_opt option)                              \
      __CPROVER_requires(__CPROVER_is_fresh(al, sizeof(struct assemblyline)))       \
      __CPROVER_assigns(al->assembly_opt)                                           \
      __CPROVER_ensures(al->assembly_opt == SPEC(__CPROVER_old(al->assembly_opt), option));

SETTER_CONTRACT(asm_mov_imm, SPEC_MOV)
SETTER_CONTRACT(asm_sib_index_base_swap, SPEC_SWAP)
SETTER_CONTRACT(asm_sib_no_base, SPEC_NOBASE)
SETTER_CONTRACT(asm_sib, SPEC_SIB)
SETTER_CONTRACT(asm_set_all, SPEC_ALL)
#endif
