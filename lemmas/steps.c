/* Step-level lemmas: the three per-instruction step functions against contracts/core_contracts.h.
 * Buffer length is any int >= 0 (is_fresh of symbolic size), position any value <= length,
 * instruction length any value in 1..20 (ghost g_asm_len), CHUNK concrete per run. */
#include "vf.h"
#include "al_unity.h"
#include "core_contracts.h"

void h_check_len(void) { assemblyline_t a; int p; check_len_or_resize(a, p); REACH("check_len returns"); }
#ifndef CHUNK
#define CHUNK 1
#endif
/* the instance is built by the harness so that chunk_size is a literal (division by a symbolic
 * chunk size does not close on any back end); every other field is unconstrained */
#define MK_INSTANCE struct assemblyline A_; A_.chunk_size = CHUNK; assemblyline_t a = &A_;
void h_assemble(void) { MK_INSTANCE struct instr *I; unsigned *p; int rc = assemble(a, I, p);
  if (rc == EXIT_SUCCESS) REACH("assemble success"); else REACH("assemble failure"); }
void h_counting(void) { MK_INSTANCE struct instr *I; unsigned *p; int *d; int rc = assemble_counting_chunks(a, I, p, d);
  if (rc == EXIT_SUCCESS) REACH("counting success"); else REACH("counting failure"); }
void h_fitting(void) { MK_INSTANCE struct instr *I; unsigned *p; unsigned p0;
  int rc = assemble_with_chunk_fitting(a, I, p);
  if (rc == EXIT_SUCCESS) REACH("fitting success"); else REACH("fitting failure"); }

/* the loop-level step contracts (contracts/loop_contracts.h, chunk size FREE: they carry frames and bounds, no chunk
 * arithmetic) proved on the real bodies; their usage forms are what the line loop of assemble_all is proved against */
#include "loop_contracts.h"
void h_assemble_l(void) { assemblyline_t a; struct instr *I; unsigned *p; int rc = assemble(a, I, p);
  if (rc == EXIT_SUCCESS) REACH("success"); else REACH("failure"); }
void h_counting_l(void) { assemblyline_t a; struct instr *I; unsigned *p; int *d; int rc = assemble_counting_chunks(a, I, p, d);
  if (rc == EXIT_SUCCESS) REACH("success"); else REACH("failure"); }
void h_fitting_l(void) { MK_INSTANCE struct instr *I; unsigned *p; int rc = assemble_with_chunk_fitting(a, I, p);   /* chunk size literal: division by a symbolic one does not close */
  if (rc == EXIT_SUCCESS) REACH("success"); else REACH("failure"); }
